#!/bin/bash
# development helper: sync harness+simrt into the persistent dev copy and build
export GOFLAGS=-mod=mod GOPROXY=off GOSUMDB=off GOTOOLCHAIN=local
D=/var/tmp/goatdev
rsync -a --delete /verif/simrt/ $D/verifsim/simrt/
rsync -a --delete /verif/harness/ $D/verifsim/harness/
cd $D && go build -o /var/tmp/goatsim ./verifsim/harness "$@"

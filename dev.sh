#!/bin/bash
# development helper: sync harness+simrt into the persistent dev copy and build.
# dev.sh --repo  re-copies /repo's working tree and re-runs the instrumenter first.
export GOFLAGS=-mod=mod GOPROXY=off GOSUMDB=off GOTOOLCHAIN=local
D=${DEV_DIR:-/var/tmp/goatdev}
SRC=${DEV_SRC:-/repo}   # DEV_SRC=<worktree> builds the dev copy from a scratch worktree (e.g. one with a seeded change)
OUT=${DEV_OUT:-/var/tmp/goatsim}
HS=${HARNESS_SRC:-/verif}   # HARNESS_SRC=<dir with harness/ and simrt/> builds a private copy of the machinery
if [ "${1:-}" = "--repo" ]; then
  shift
  (cd ${HS}/tools/simrewrite && go build -o /var/tmp/simrewrite .) || exit 2
  rm -rf $D; mkdir -p $D/verifsim
  (cd $SRC && find . -path ./.git -prune -o -type f -print0 | grep -zv '^\./\.git/' | xargs -0 cp --parents -t $D)
  cp -r $HS/simrt $D/verifsim/simrt
  (cd $D && /var/tmp/simrewrite -dir .) || exit 2
fi
rsync -a --delete $HS/simrt/ $D/verifsim/simrt/
rsync -a --delete $HS/harness/ $D/verifsim/harness/
cd $D && go build -o $OUT ./verifsim/harness "$@"

#!/usr/bin/env python3
"""Sensitivity campaign: deliberate one-line breaks of /repo (DESIGN.md 2.11), each checked with the
property's quick check. Usage: tools/mutate.py [ids...]   Results: /verif/notes/mutations.jsonl
Works on a scratch git worktree of /repo (MUT_REPO, default /var/tmp/goatmut; created here, removed at
the end); the checks are pointed at it with VERIF_REPO, so /repo itself is never touched."""
import subprocess, sys, json, os, time

R=os.environ.get('MUT_REPO','/var/tmp/goatmut')  # a scratch git worktree of /repo, never /repo itself
V=os.environ.get('MUT_VERIF','/var/tmp/goatmutv')
ENV=dict(os.environ, GOFLAGS='-mod=mod', GOPROXY='off', GOSUMDB='off', GOTOOLCHAIN='local')

def rep(path, old, new, count=1):
    p=os.path.join(R,path); s=open(p).read()
    assert old in s, f'anchor not found in {path}: {old[:60]!r}'
    open(p,'w').write(s.replace(old,new,count))

M=[]
def m(id, prop, desc, *edits): M.append((id,prop,desc,edits))

m('C01a','C01','VerifyProposal: threshold test dropped', ('x/relayer/keeper/proposal.go','bmpLen+1 < relayer.Threshold() || bmpLen > len(voters)','bmpLen > len(voters)'))
m('C01b','C01','VerifyProposal: epoch taken from the vote, not from the state', ('x/relayer/keeper/proposal.go','''	if req.GetVote().GetEpoch() != relayer.Epoch {
		return 0, errorsmod.Wrap(sdkerrors.ErrInvalidRequest, "incorrect epoch")
	}
''',''), ('x/relayer/keeper/proposal.go','sequence, relayer.Epoch, req.VoteSigDoc())','sequence, req.GetVote().GetEpoch(), req.VoteSigDoc())'))
m('C01c','C01','VerifyProposal: sign-doc no longer binds the method name', ('x/relayer/keeper/proposal.go','types.VoteSignDoc(req.MethodName(),','types.VoteSignDoc("",'))
m('C02a','C02','NewConsolidation does not advance the sequence', ('x/bitcoin/keeper/tx.go','''	txid := goatcrypto.DoubleSHA256Sum(req.NoWitnessTx)
	if err := k.relayerKeeper.SetProposalSeq(sdkctx, sequence+1); err != nil {
		return nil, err
	}
''','''	txid := goatcrypto.DoubleSHA256Sum(req.NoWitnessTx)
'''))
m('C02b','C02','VerifyProposal: sequence taken from the vote, comparison dropped', ('x/relayer/keeper/proposal.go','''	if req.GetVote().GetSequence() != sequence {
		return 0, errorsmod.Wrap(sdkerrors.ErrInvalidRequest, "incorrect sequence")
	}
''','''	sequence = req.GetVote().GetSequence()
'''))
m('C03a','C03','VerifyDeposit: duplicate test dropped', ('x/bitcoin/keeper/keeper.go','''	if deposited {
		return nil, errorsmod.Wrap(sdkerrors.ErrInvalidRequest, "duplicated deposit")
	}
''','''	_ = deposited
'''))
m('C03b','C03','VerifyDeposit: coinbase maturity rule dropped', ('x/bitcoin/keeper/keeper.go','if tip < deposit.BlockNumber+100 {','if false && tip < deposit.BlockNumber+100 {'))
m('C03c','C03','VerifyDeposit: header hash not compared with the voted hash', ('x/bitcoin/keeper/keeper.go','if !bytes.Equal(blockHash, goatcrypto.DoubleSHA256Sum(rawHeader)) {','if false && !bytes.Equal(blockHash, goatcrypto.DoubleSHA256Sum(rawHeader)) {'))
m('C03d','C03','VerifyDeposit: tax cap ignored', ('x/bitcoin/keeper/keeper.go','if param.MaxDepositTax > 0 && tax > param.MaxDepositTax {','if false && tax > param.MaxDepositTax {'))
m('C03e','C03','NewDeposits: Deposited.Set moved out of the loop (only the last item is marked)', ('x/bitcoin/keeper/tx.go','''		amount := deposit.Amount + deposit.Tax
		if err := k.Deposited.Set(ctx,
			collections.Join(deposit.Txid, deposit.Txout), amount); err != nil {
			return nil, err
		}
		events = append(events, types.NewDepositEvent(deposit))
		deposits = append(deposits, deposit)
	}
''','''		events = append(events, types.NewDepositEvent(deposit))
		deposits = append(deposits, deposit)
	}
	for _, deposit := range deposits {
		if err := k.Deposited.Set(ctx,
			collections.Join(deposit.Txid, deposit.Txout), deposit.Amount+deposit.Tax); err != nil {
			return nil, err
		}
	}
'''))
m('C05a','C05','ProcessWithdrawal accepts PROCESSING', ('x/bitcoin/keeper/tx.go','if withdrawal.Status != types.WITHDRAWAL_STATUS_PENDING && withdrawal.Status != types.WITHDRAWAL_STATUS_CANCELING {','if withdrawal.Status != types.WITHDRAWAL_STATUS_PENDING && withdrawal.Status != types.WITHDRAWAL_STATUS_CANCELING && withdrawal.Status != types.WITHDRAWAL_STATUS_PROCESSING {'))
m('C05b','C05','ProcessWithdrawal: fee-rate test dropped', ('x/bitcoin/keeper/tx.go','''		if txPrice > float64(withdrawal.MaxTxPrice) {
			return nil, errorsmod.Wrapf(sdkerrors.ErrInvalidRequest, "tx price is larger than user request for witdhrawal %d", wid)
		}

		txout := tx.TxOut[idx]
		outputScript, err := types.DecodeBtcAddress(withdrawal.Address, netwk)
		if err != nil { // It should not happen
			return nil, errorsmod.Wrapf(sdkerrors.ErrInvalidAddress, "invalid address to process %d", wid)
		}

		if !bytes.Equal(outputScript, txout.PkScript) {
			return nil, errorsmod.Wrapf(sdkerrors.ErrInvalidRequest, "witdhrawal %d script not matched", wid)
		}

		if withdrawal.RequestAmount < uint64(txout.Value) {
			return nil, errorsmod.Wrapf(sdkerrors.ErrInvalidRequest, "witdhrawal %d amount too large", wid)
		}

		// the withdrawal id''','''		_ = txPrice

		txout := tx.TxOut[idx]
		outputScript, err := types.DecodeBtcAddress(withdrawal.Address, netwk)
		if err != nil { // It should not happen
			return nil, errorsmod.Wrapf(sdkerrors.ErrInvalidAddress, "invalid address to process %d", wid)
		}

		if !bytes.Equal(outputScript, txout.PkScript) {
			return nil, errorsmod.Wrapf(sdkerrors.ErrInvalidRequest, "witdhrawal %d script not matched", wid)
		}

		if withdrawal.RequestAmount < uint64(txout.Value) {
			return nil, errorsmod.Wrapf(sdkerrors.ErrInvalidRequest, "witdhrawal %d amount too large", wid)
		}

		// the withdrawal id'''))
m('C05c','C05','ApproveCancellation accepts PENDING', ('x/bitcoin/keeper/tx.go','if withdrawal.Status != types.WITHDRAWAL_STATUS_CANCELING {','if withdrawal.Status != types.WITHDRAWAL_STATUS_CANCELING && withdrawal.Status != types.WITHDRAWAL_STATUS_PENDING {'))
m('C05d','C05','FinalizeWithdrawal: header hash test dropped', ('x/bitcoin/keeper/tx.go','''	if !bytes.Equal(blockHash, goatcrypto.DoubleSHA256Sum(req.BlockHeader)) {
		return nil, errorsmod.Wrap(sdkerrors.ErrInvalidRequest, "inconsistent block hash")
	}
''','''	_ = blockHash
'''))
m('C05e','C05','ProcessWithdrawal: change output not checked', ('x/bitcoin/keeper/tx.go','''		if !types.VerifySystemAddressScript(&pubkey, change.PkScript) {
			return nil, errorsmod.Wrap(sdkerrors.ErrInvalidRequest, "give change to not a latest relayer pubkey")
		}
	}

	// Add processing staus''','''		_, _ = pubkey, change
	}

	// Add processing staus'''))
m('C06a','C06','bitcoin dequeue does not persist the advanced nonce', ('x/bitcoin/keeper/eth.go','''		if err := k.EthTxNonce.Set(ctx, txNonce); err != nil {
			return nil, err
		}
''',''))
m('C06b','C06','VerifyDequeue compares lengths only for bridge txs', ('x/goat/keeper/eth.go','''		if !bytes.Equal(raw, txs[idx]) {
			return fmt.Errorf("bridge tx %d bytes mismatched", idx)
		}
''','''		_ = raw
'''))
m('C06c','C06','NewBlockHashes: tip+1 test dropped', ('x/bitcoin/keeper/tx.go','if req.StartBlockNumber != parentHeight+1 {','if false && req.StartBlockNumber != parentHeight+1 {'))
m('C06d','C06','locking dequeue caps at 15 but slices 16 (one reward dropped when more than 15 queue)', ('x/locking/keeper/ethtx.go','''		for ; n < len(queue.Rewards) && n < MaxTx; n++ {
			dist := queue.Rewards[n]
			txs = append(txs, dist.EthTx(txNonce))
			txNonce++
		}
		queue.Rewards = queue.Rewards[n:]''','''		for ; n < len(queue.Rewards) && n < MaxTx-1; n++ {
			dist := queue.Rewards[n]
			txs = append(txs, dist.EthTx(txNonce))
			txNonce++
		}
		if n == MaxTx-1 && n < len(queue.Rewards) {
			n++
		}
		queue.Rewards = queue.Rewards[n:]'''))
m('C07a','C07','UpdateRandao mixes the wall clock in', ('x/relayer/keeper/keeper.go','newRandao := goatcrypto.SHA256Sum(randao, req.GetVote().GetSignature())','newRandao := goatcrypto.SHA256Sum(randao, req.GetVote().GetSignature(), goatcrypto.Uint64LE(uint64(time.Now().Unix()/7)))'), ('x/relayer/keeper/keeper.go','import (\n','import (\n\t"time"\n'))
m('C07b','C07','Claim iterates requests through a map', ('x/locking/keeper/msg_claim.go','''	for _, req := range reqs {
		valdtAddr := sdktypes.ConsAddress(req.Validator.Bytes())
''','''	byID := map[uint64]*goattypes.ClaimRequest{}
	for _, req := range reqs {
		byID[req.Id] = req
	}
	for _, req := range byID {
		valdtAddr := sdktypes.ConsAddress(req.Validator.Bytes())
'''))
m('C08a','C08','verifyEthBlockProposal: proposer comparison dropped', ('x/goat/keeper/abci.go','if expect := sdkctx.CometInfo().GetProposerAddress(); !bytes.Equal(proposer, expect) {','if expect := sdkctx.CometInfo().GetProposerAddress(); false && !bytes.Equal(proposer, expect) {'))
m('C08b','C08','ProcessProposal accepts several messages in the first tx', ('x/goat/keeper/abci.go','''				if len(msgs) != 1 {
					return nil, errorsmod.Wrap(sdkerrors.ErrInvalidRequest, "invalid MsgNewEthBlock message")
				}
''','''				if len(msgs) < 1 {
					return nil, errorsmod.Wrap(sdkerrors.ErrInvalidRequest, "invalid MsgNewEthBlock message")
				}
'''))
m('C08c','C08','verifyEthBlockProposal: beacon root not compared', ('x/goat/keeper/abci.go','if !bytes.Equal(beaconRoot, payload.BeaconRoot) {\n\t\t\treturn fmt.Errorf("refer','if false && !bytes.Equal(beaconRoot, payload.BeaconRoot) {\n\t\t\treturn fmt.Errorf("refer'))
m('C09a','C09','Finalized ignores INVALID from newPayload', ('x/goat/keeper/keeper.go','if response.Status == engine.INVALID {','if false && response.Status == engine.INVALID {'))
m('C09b','C09','NewEthBlock: parent test dropped', ('x/goat/keeper/tx.go','if !bytes.Equal(block.BlockHash, payload.ParentHash) || block.BlockNumber+1 != payload.BlockNumber {','if false {'))
m('C09c','C09','NewEthBlock does not update the beacon root', ('x/goat/keeper/tx.go','''	if err := k.BeaconRoot.Set(sdkctx, sdkctx.HeaderHash()); err != nil {
		return nil, err
	}
''',''))
m('C09d','C09','Finalized tells the engine the head as safe/finalized', ('x/goat/keeper/keeper.go','parentHash := common.BytesToHash(block.ParentHash)','parentHash := common.BytesToHash(block.BlockHash)'))
m('C10a','C10','ante: prefix widened to goat.', ('app/ante.go','if !strings.HasPrefix(msgName, "goat.bitcoin.") && !strings.HasPrefix(msgName, "goat.relayer.") {','if !strings.HasPrefix(msgName, "goat.") {'))
m('C10b','C10','ante: proposer identity test dropped', ('app/ante.go','if !relayerProposer.Equals(sdk.AccAddress(signers[0])) {','if false && !relayerProposer.Equals(sdk.AccAddress(signers[0])) {'))
m('C10c','C10','ante: memo test dropped', ('app/ante.go','if len(stdTx.GetMemo()) > 0 {','if false && len(stdTx.GetMemo()) > 0 {'))
m('C10d','C10','ante: timeout test dropped', ('app/ante.go','if timeoutHeight > 0 && uint64(ctx.BlockHeight()) > timeoutHeight {','if false && timeoutHeight > 0 && uint64(ctx.BlockHeight()) > timeoutHeight {'))
m('C11a','C11','unlock does not clip the amount to the holding', ('x/locking/keeper/msg_unlock.go','''	if lockingAmount.LT(amount) { // the validator was slashed
		amount = math.NewIntFromBigIntMut(lockingAmount.BigInt())
	}
	updatedLocking := validator.Locking.Sub(sdktypes.NewCoin(tokenAddr, amount))
	lockingAmount = lockingAmount.Sub(amount)''','''	released := amount
	if lockingAmount.LT(amount) { // the validator was slashed
		amount = math.NewIntFromBigIntMut(lockingAmount.BigInt())
	}
	updatedLocking := validator.Locking.Sub(sdktypes.NewCoin(tokenAddr, amount))
	lockingAmount = lockingAmount.Sub(amount)
	amount = released'''))
m('C11b','C11','downtime slash not added to the slashed total', ('x/locking/keeper/votes.go','if err := k.Slashed.Set(sdkctx, locking.Denom, slashed.Add(amount)); err != nil {','if err := k.Slashed.Set(sdkctx, locking.Denom, slashed); err != nil {'))
m('C12a','C12','no halving', ('x/locking/keeper/reward.go','if halvings := sdkctx.BlockHeight() / param.HalvingInterval; halvings > 0 {','if halvings := sdkctx.BlockHeight() / param.HalvingInterval; false && halvings > 0 {'))
m('C12b','C12','Claim does not zero the gas reward', ('x/locking/keeper/msg_claim.go','		validator.GasReward = math.ZeroInt()\n',''))
m('C12c','C12','grant added twice', ('x/locking/keeper/reward.go','pool.Remain = pool.Remain.Add(math.NewIntFromBigIntMut(grant.Amount))','pool.Remain = pool.Remain.Add(math.NewIntFromBigIntMut(grant.Amount)).Add(math.NewIntFromBigInt(grant.Amount))'))
m('C13a','C13','EndBlocker ignores MaxValidators', ('x/locking/keeper/abci.go','for count := int64(0); pwIter.Valid() && count < param.MaxValidators; pwIter.Next() {','for count := int64(0); pwIter.Valid() && count < param.MaxValidators+1; pwIter.Next() {'))
m('C13b','C13','EndBlocker does not demote leftovers', ('x/locking/keeper/abci.go','''		if validator.Status == types.Active {
			validator.Status = types.Pending
			if err := k.Validators.Set(sdkctx, valAddr, validator); err != nil {
				return nil, err
			}
		}
''',''))
m('C13c','C13','lock keeps the stale ranking entry', ('x/locking/keeper/msg_lock.go','''		// remove it from power ranking
		if err := k.PowerRanking.Remove(ctx,
			collections.Join(validator.Power, valdtAddr)); err != nil {
			return err
		}
''',''))
m('C14a','C14','downtime sets no jail time', ('x/locking/keeper/votes.go','		validator.JailedUntil = sdkctx.BlockTime().Add(param.DowntimeJailDuration)\n',''))
m('C14b','C14','unjail without the threshold test', ('x/locking/keeper/msg_lock.go','if sdkctx.BlockTime().After(validator.JailedUntil) && validator.Locking.IsAllGTE(threshold.List) {','if sdkctx.BlockTime().After(validator.JailedUntil) {'))
m('C14c','C14','lock revives a tombstoned validator', ('x/locking/keeper/msg_lock.go','	case types.Downgrade:\n','	case types.Downgrade, types.Tombstoned:\n'), ('x/locking/keeper/msg_lock.go','	case types.Tombstoned, types.Inactive:\n','	case types.Inactive:\n'))
m('C14d','C14','downtime slash applied although the window model says reset (window never resets)', ('x/locking/keeper/votes.go','''	if validator.SigningInfo.Offset >= param.SignedBlocksWindow {
		validator.SigningInfo.Missed = 0
		validator.SigningInfo.Offset = 0
	}''','''	if validator.SigningInfo.Offset >= param.SignedBlocksWindow {
		validator.SigningInfo.Offset = 0
	}'''))
m('C15a','C15','exits use the unlock duration', ('x/locking/keeper/msg_unlock.go','unlockTime = sdkctx.BlockTime().Add(param.ExitingDuration)','unlockTime = sdkctx.BlockTime().Add(param.UnlockDuration)'))
m('C15b','C15','unlock sweep looks one minute ahead', ('x/locking/keeper/msg_unlock.go','EndInclusive(sdkctx.BlockTime())','EndInclusive(sdkctx.BlockTime().Add(time.Minute))'))
m('C16a','C16','removal guard dropped', ('x/relayer/keeper/eth.go','''		if active < 1 {
			k.Logger().Warn("requires 1 voter at least in active set, disregard the removal", "voter", addr)
			break
		}
''',''))
m('C16b','C16','NewVoter skips the BLS possession proof', ('x/relayer/keeper/tx.go','if !goatcrypto.Verify(req.VoterBlsKey, sigMsg, req.VoterBlsKeyProof) {','if false && !goatcrypto.Verify(req.VoterBlsKey, sigMsg, req.VoterBlsKeyProof) {'))
m('C16c','C16','election without an epoch increment when nobody is queued', ('x/relayer/keeper/abci.go','	relayer.Epoch++\n','	if offBoarding || onBoarding {\n		relayer.Epoch++\n	}\n'))
m('C16d','C16','NewVoter registration not bound to the epoch', ('x/relayer/keeper/tx.go','req.Proposer, 0 /* sequence */, relayer.GetEpoch(), reqMsg.SignDoc())','req.Proposer, 0 /* sequence */, 0, reqMsg.SignDoc())'))
m('C17a','C17','v1 script check ignores the EVM address', ('x/bitcoin/types/address.go','if script := slices.Concat(magicPrefix, evmAddress); !bytes.Equal(txout1[2:], script) {','if script := slices.Concat(magicPrefix, evmAddress); !bytes.Equal(txout1[2:2+len(magicPrefix)], script[:len(magicPrefix)]) {'))
m('C17b','C17','DecodeBtcAddress accepts P2PK', ('x/bitcoin/types/address.go','if _, ok := addr.(*btcutil.AddressPubKey); ok {','if _, ok := addr.(*btcutil.AddressPubKey); false && ok {'))
m('C17c','C17','DecodeBtcAddress skips the network test', ('x/bitcoin/types/address.go','if !addr.IsForNet(netwk) {','if false && !addr.IsForNet(netwk) {'))
m('C18a','C18','locking export drops the unlock queue', ('x/locking/module/genesis.go','''			genesis.UnlockQueue = append(genesis.UnlockQueue, &types.UnlockQueueGenesis{
				Timestamp: kv.Key,
				Unlocks:   kv.Value.Unlocks,
			})''','''			_ = kv'''))
m('C18b','C18','locking import does not rebuild the per-token index', ('x/locking/module/genesis.go','''		for _, locking := range validator.Locking {
			err = k.Locking.Set(ctx,
				collections.Join(locking.Denom, address), locking.Amount)
			if err != nil {
				panic(err)
			}
		}
''',''))
m('C18c','C18','bitcoin export drops processing entries', ('x/bitcoin/module/genesis.go','''			genesis.Processing = append(genesis.Processing, types.ProcessingGenesis{
				Id:         kv.Key,
				Processing: kv.Value,
			})''','''			_ = kv'''))
m('C19a','C19','verifyEthBlockProposal: nil-payload test dropped', ('x/goat/keeper/abci.go','''	payload := msg.Payload
	if payload == nil {
		return errors.New("empty payload")
	}

	k.Logger().Info("Verify new executable payload", payload.LogKeyVals()...)''','''	payload := msg.Payload
'''))
m('C20a','C20','tax-rate guard dropped', ('x/bitcoin/keeper/eth.go','if v.Rate < types.MaxTaxBP {','if true {'))
m('C20b','C20','min-deposit guard dropped', ('x/bitcoin/keeper/eth.go','if v.Satoshi > types.DustTxoutAmount {','if true {'))
m('C20c','C20','zero-confirmation guard dropped', ('x/bitcoin/keeper/eth.go','if v.Number != 0 {','if true {'))

def sh(cmd, timeout=1800, cwd=None):
    try:
        p=subprocess.run(cmd,shell=True,env=ENV,cwd=cwd,capture_output=True,text=True,timeout=timeout)
        return p.returncode,(p.stdout+p.stderr)
    except subprocess.TimeoutExpired:
        return 124,'timeout'

def main():
    want=set(sys.argv[1:])
    out=open(os.environ.get('MUT_OUT','/verif/notes/mutations.jsonl'),'a')
    if not os.path.exists(R):
        rc,o=sh(f'git -C /repo worktree add --detach {R} HEAD'); assert rc==0, o
    # a private copy of the machinery, so cache, evidence and replays of mutated trees never land in /verif
    rc,o=sh(f'mkdir -p {V}/tools && rsync -a --delete /verif/harness /verif/simrt /verif/check /verif/known_findings.json {V}/ && rsync -a --delete /verif/tools/simrewrite {V}/tools/'); assert rc==0, o
    for id,prop,desc,edits in M:
        if want and id not in want and prop not in want: continue
        sh('git -C '+R+' checkout -- .')
        rec={'id':id,'property':prop,'change':desc,'at':time.strftime('%H:%M:%S')}
        try:
            for e in edits: rep(*e)
        except AssertionError as ex:
            rec['error']=str(ex); out.write(json.dumps(rec)+'\n'); out.flush(); print(rec); continue
        rc,o=sh('go build ./... ',cwd=R)
        rec['builds']=(rc==0)
        if rc!=0:
            rec['build_output']=o[-400:]; sh('git -C '+R+' checkout -- .'); out.write(json.dumps(rec)+'\n'); out.flush(); print(rec); continue
        if os.environ.get('MUT_NOSUITE'):
            rec['suite_passes']=None
        else:
            rc,o=sh('go test -vet=off ./... 2>&1 | grep -v "^ok\\|no test files" | head -5',cwd=R)
            rec['suite_passes']=(o.strip()=='')
            if o.strip(): rec['suite_output']=o[-300:]
        rc,o=sh(f'VERIF_REPO={R} VERIF_SEED=99 VERIF_BUDGET={os.environ.get("MUT_BUDGET","50s")} ./check {prop}',cwd=V)
        rec['check_exit']=rc
        v=[l for l in o.splitlines() if l.startswith('violation:')]
        rec['violations']=[x[:160] for x in v[:3]]
        sh('git -C '+R+' checkout -- .')
        out.write(json.dumps(rec)+'\n'); out.flush()
        print(id,prop,'suite_passes' if rec['suite_passes'] else 'SUITE-FAILS','DETECTED' if rc==1 else ('MISSED' if rc==0 else f'rc={rc}'),(v[0][:120] if v else ''),flush=True)
    sh('git -C '+R+' checkout -- .')
    if not os.environ.get('MUT_KEEP'):
        sh(f'git -C /repo worktree remove --force {R}; rm -rf {V}')
main()

#!/bin/bash
# tools/devseed.sh <worktree-with-seeded-change> <property> [budget]  — development helper: builds the simulator
# from a scratch worktree (never /repo) with the machinery in $HARNESS_SRC (default /verif) and runs one quick check.
# Evidence and replays go to /var/tmp/vd, not to /verif.
wt=$1; prop=$2; budget=${3:-60s}
tag=$(basename $wt)
export DEV_DIR=/var/tmp/goatdev-$tag DEV_SRC=$wt DEV_OUT=/var/tmp/goatsim-$tag
/verif/dev.sh --repo > /var/tmp/devseed-$tag.build.log 2>&1 || { echo "build failed: /var/tmp/devseed-$tag.build.log"; exit 2; }
mkdir -p /var/tmp/vd
cd /var/tmp && VERIF_DIR=/var/tmp/vd VERIF_SEED=${VERIF_SEED:-4242} $DEV_OUT check -property $prop -tier quick -budget $budget 2>&1 | grep -v "^WARNING" | cut -c1-330 | tail -6
rm -rf $DEV_DIR $DEV_OUT

#!/bin/bash
# tools/reseed.sh <seed> [ids...] — robustness of detection against the seed: every kept seeded change (default: the
# ones a first pass had missed) is applied to /repo, its property's quick check is run with VERIF_SEED=<seed>, and the
# change is undone. One JSON line per change goes to notes/reseed.jsonl. Serial: it patches /repo.
seed=$1; shift
cd /verif
ids="$@"
if [ -z "$ids" ]; then
  ids=$(python3 - <<'PY'
import json,glob
for f in sorted(glob.glob('/verif/seeded/*/meta.json')):
    m=json.load(open(f))
    if m.get('missed_at_first'): print(m['id'])
PY
)
fi
for id in $ids; do
  p=$(python3 -c "import json;print(json.load(open('/verif/seeded/$id/meta.json'))['breaks_property'])")
  git -C /repo apply /verif/seeded/$id/patch.diff 2>/dev/null || { echo "{\"id\":\"$id\",\"seed\":$seed,\"error\":\"patch does not apply\"}" >> notes/reseed.jsonl; git -C /repo checkout -- .; continue; }
  s=$(date +%s)
  VERIF_SEED=$seed ./check $p > /var/tmp/reseed-$id.log 2>&1; rc=$?
  git -C /repo checkout -- .
  o=$(grep -m1 "^violation:" /var/tmp/reseed-$id.log | cut -c12-120 | sed 's/"/'"'"'/g')
  echo "{\"id\":\"$id\",\"property\":\"$p\",\"seed\":$seed,\"exit\":$rc,\"seconds\":$(( $(date +%s)-s )),\"oracle\":\"${o%%:*}\"}" >> notes/reseed.jsonl
  echo "$id $p seed=$seed exit=$rc ${o%%:*}"
done

// simrewrite instruments a scratch copy of GOATNetwork/goat for deterministic simulation.
// It is a go/ast + go/types source-to-source pass (see DESIGN.md §2.1):
//
//	T1 time.Now/Since/Until/After/Sleep/NewTimer/Tick/AfterFunc, context.WithTimeout/WithDeadline -> simrt.*
//	T2 crypto/rand.Read/Reader, package-level math/rand functions                                 -> simrt.*
//	T3 go statements, errgroup.WithContext, (*errgroup.Group).Go/Wait, (*sync.WaitGroup).Add/Done/Wait -> simrt.*
//	T4 range over a map -> range over simrt.MapKeys(site, m)
//	T5 ethrpc.DialContext: prepend the in-process dial override
//	T6 (*rpc.Client).CallContext inside pkg/ethrpc -> simrt.EngineCall(func() error { return <call> }): the
//	   runtime learns which goroutine issues an engine request (one the scheduler owns, or one the
//	   application or a dependency started behind its back)
//
// Usage: simrewrite -dir <copy of the repository> [-report file]
// Exit status 0 on success; anything else means the copy must not be used.
package main

import (
	"encoding/json"
	"flag"
	"fmt"
	"go/ast"
	"go/format"
	"go/token"
	"go/types"
	"os"
	"path/filepath"
	"sort"
	"strings"

	"golang.org/x/tools/go/ast/astutil"
	"golang.org/x/tools/go/packages"
)

const simrtPath = "github.com/goatnetwork/goat/verifsim/simrt"

type site struct {
	Kind string `json:"kind"`
	Pos  string `json:"pos"`
	What string `json:"what"`
}

var sites []site

func main() {
	dir := flag.String("dir", "", "root of the scratch copy")
	report := flag.String("report", "", "write a JSON report of rewritten sites here")
	flag.Parse()
	if *dir == "" {
		fmt.Fprintln(os.Stderr, "simrewrite: -dir required")
		os.Exit(2)
	}
	abs, err := filepath.Abs(*dir)
	if err != nil {
		fatal(err)
	}
	cfg := &packages.Config{
		Dir:  abs,
		Mode: packages.NeedName | packages.NeedFiles | packages.NeedSyntax | packages.NeedTypes | packages.NeedTypesInfo | packages.NeedImports | packages.NeedDeps | packages.NeedCompiledGoFiles,
		Env:  os.Environ(),
	}
	pkgs, err := packages.Load(cfg, "./app/...", "./x/...", "./pkg/...")
	if err != nil {
		fatal(err)
	}
	bad := false
	for _, p := range pkgs {
		for _, e := range p.Errors {
			fmt.Fprintf(os.Stderr, "simrewrite: %s: %v\n", p.PkgPath, e)
			bad = true
		}
	}
	if bad {
		os.Exit(2)
	}
	dialDone := false
	for _, p := range pkgs {
		for i, f := range p.Syntax {
			name := p.CompiledGoFiles[i]
			if !strings.HasPrefix(name, abs) {
				continue
			}
			base := filepath.Base(name)
			if strings.HasSuffix(base, ".pb.go") || strings.HasSuffix(base, ".pb.gw.go") || strings.HasSuffix(base, ".pulsar.go") || strings.HasSuffix(base, "_test.go") {
				continue
			}
			rel, _ := filepath.Rel(abs, name)
			r := &rewriter{pkg: p, file: f, fset: p.Fset, rel: rel}
			r.run()
			if r.dial {
				dialDone = true
			}
			if r.changed {
				// comments inside rewritten statements end up misplaced; keep only those before the package clause
				var keep []*ast.CommentGroup
				for _, cg := range f.Comments {
					if cg.End() < f.Package {
						keep = append(keep, cg)
					}
				}
				f.Comments = keep
				var sb strings.Builder
				if err := format.Node(&sb, p.Fset, f); err != nil {
					fatal(fmt.Errorf("%s: %w", rel, err))
				}
				if err := os.WriteFile(name, []byte(sb.String()), 0o644); err != nil {
					fatal(err)
				}
			}
		}
	}
	if !dialDone {
		fmt.Fprintln(os.Stderr, "simrewrite: anchor ethrpc.DialContext(ctx, rawurl string) not found (T5)")
		os.Exit(2)
	}
	sort.Slice(sites, func(i, j int) bool { return sites[i].Pos < sites[j].Pos })
	if *report != "" {
		b, _ := json.MarshalIndent(sites, "", " ")
		if err := os.WriteFile(*report, b, 0o644); err != nil {
			fatal(err)
		}
	}
	counts := map[string]int{}
	for _, s := range sites {
		counts[s.Kind]++
	}
	fmt.Printf("simrewrite: %d sites %v\n", len(sites), counts)
}

func fatal(err error) {
	fmt.Fprintln(os.Stderr, "simrewrite:", err)
	os.Exit(2)
}

type rewriter struct {
	pkg     *packages.Package
	file    *ast.File
	fset    *token.FileSet
	rel     string
	changed bool
	dial    bool
	tmp     int
}

func (r *rewriter) pos(n ast.Node) string {
	p := r.fset.Position(n.Pos())
	return fmt.Sprintf("%s:%d", r.rel, p.Line)
}

func (r *rewriter) mark(kind string, n ast.Node, what string) {
	sites = append(sites, site{kind, r.pos(n), what})
	r.changed = true
}

func simrtSel(name string) *ast.SelectorExpr {
	return &ast.SelectorExpr{X: ast.NewIdent("simrt"), Sel: ast.NewIdent(name)}
}

func (r *rewriter) pkgOf(x ast.Expr) string {
	id, ok := x.(*ast.Ident)
	if !ok {
		return ""
	}
	if pn, ok := r.pkg.TypesInfo.Uses[id].(*types.PkgName); ok {
		return pn.Imported().Path()
	}
	return ""
}

var timeFuncs = map[string]bool{"Now": true, "Since": true, "Until": true, "After": true, "Sleep": true, "NewTimer": true, "Tick": true, "AfterFunc": true}
var mathRandKeep = map[string]bool{"New": true, "NewSource": true, "NewZipf": true, "Rand": true, "Source": true, "Source64": true, "Zipf": true}

// methodOf reports the package path, receiver type name and method name of a method call.
func (r *rewriter) methodOf(call *ast.CallExpr) (recv ast.Expr, pkgPath, typ, method string, isPtr bool) {
	sel, ok := call.Fun.(*ast.SelectorExpr)
	if !ok {
		return
	}
	s := r.pkg.TypesInfo.Selections[sel]
	if s == nil || s.Kind() != types.MethodVal {
		return
	}
	fn, ok := s.Obj().(*types.Func)
	if !ok {
		return
	}
	sig := fn.Type().(*types.Signature)
	if sig.Recv() == nil {
		return
	}
	rt := sig.Recv().Type()
	if p, ok := rt.(*types.Pointer); ok {
		rt = p.Elem()
	}
	named, ok := rt.(*types.Named)
	if !ok || named.Obj().Pkg() == nil {
		return
	}
	xt := r.pkg.TypesInfo.TypeOf(sel.X)
	_, isPtr = xt.(*types.Pointer)
	return sel.X, named.Obj().Pkg().Path(), named.Obj().Name(), fn.Name(), isPtr
}

func addrOf(x ast.Expr, isPtr bool) ast.Expr {
	if isPtr {
		return x
	}
	return &ast.UnaryExpr{Op: token.AND, X: x}
}

func (r *rewriter) run() {
	info := r.pkg.TypesInfo
	astutil.Apply(r.file, func(c *astutil.Cursor) bool {
		switch n := c.Node().(type) {
		case *ast.FuncDecl:
			if n.Name.Name == "DialContext" && n.Recv == nil && strings.HasSuffix(r.pkg.PkgPath, "pkg/ethrpc") && n.Body != nil {
				params := n.Type.Params.List
				if len(params) == 2 && len(params[1].Names) == 1 {
					urlName := params[1].Names[0].Name
					stmt := &ast.IfStmt{
						Init: &ast.AssignStmt{Lhs: []ast.Expr{ast.NewIdent("simc")}, Tok: token.DEFINE,
							Rhs: []ast.Expr{&ast.CallExpr{Fun: simrtSel("DialOverride"), Args: []ast.Expr{ast.NewIdent(urlName)}}}},
						Cond: &ast.BinaryExpr{X: ast.NewIdent("simc"), Op: token.NEQ, Y: ast.NewIdent("nil")},
						Body: &ast.BlockStmt{List: []ast.Stmt{&ast.ReturnStmt{Results: []ast.Expr{
							&ast.UnaryExpr{Op: token.AND, X: &ast.CompositeLit{Type: ast.NewIdent("Client"),
								Elts: []ast.Expr{&ast.CallExpr{Fun: &ast.SelectorExpr{X: ast.NewIdent("ethclient"), Sel: ast.NewIdent("NewClient")}, Args: []ast.Expr{ast.NewIdent("simc")}}}}},
							ast.NewIdent("nil"),
						}}}},
					}
					n.Body.List = append([]ast.Stmt{stmt}, n.Body.List...)
					r.dial = true
					r.mark("T5", n, "DialContext override")
				}
			}
		case *ast.GoStmt:
			call := n.Call
			wrapped := &ast.ExprStmt{X: &ast.CallExpr{Fun: simrtSel("Go"), Args: []ast.Expr{
				&ast.FuncLit{Type: &ast.FuncType{Params: &ast.FieldList{}}, Body: &ast.BlockStmt{List: []ast.Stmt{&ast.ExprStmt{X: call}}}},
			}}}
			r.mark("T3", n, "go statement")
			c.Replace(wrapped)
		case *ast.RangeStmt:
			t := info.TypeOf(n.X)
			if t == nil {
				return true
			}
			if _, ok := t.Underlying().(*types.Map); !ok {
				return true
			}
			r.rewriteRange(c, n)
		}
		return true
	}, func(c *astutil.Cursor) bool {
		switch n := c.Node().(type) {
		case *ast.CallExpr:
			recv, pkgPath, typ, method, isPtr := r.methodOf(n)
			if recv == nil {
				return true
			}
			switch {
			case pkgPath == "golang.org/x/sync/errgroup" && typ == "Group" && method == "Go":
				r.mark("T3", n, "errgroup.Go")
				n.Fun = simrtSel("GroupGo")
				n.Args = append([]ast.Expr{addrOf(recv, isPtr)}, n.Args...)
			case pkgPath == "golang.org/x/sync/errgroup" && typ == "Group" && method == "Wait":
				r.mark("T3", n, "errgroup.Wait")
				n.Fun = simrtSel("GroupWait")
				n.Args = []ast.Expr{addrOf(recv, isPtr)}
			case pkgPath == "github.com/ethereum/go-ethereum/rpc" && typ == "Client" && method == "CallContext" && strings.HasSuffix(r.pkg.PkgPath, "pkg/ethrpc"):
				r.mark("T6", n, "engine CallContext")
				c.Replace(&ast.CallExpr{Fun: simrtSel("EngineCall"), Args: []ast.Expr{
					&ast.FuncLit{Type: &ast.FuncType{Params: &ast.FieldList{}, Results: &ast.FieldList{List: []*ast.Field{{Type: ast.NewIdent("error")}}}},
						Body: &ast.BlockStmt{List: []ast.Stmt{&ast.ReturnStmt{Results: []ast.Expr{n}}}}},
				}})
			case pkgPath == "sync" && typ == "WaitGroup" && (method == "Add" || method == "Done" || method == "Wait"):
				r.mark("T3", n, "WaitGroup."+method)
				n.Fun = simrtSel("WG" + method)
				n.Args = append([]ast.Expr{addrOf(recv, isPtr)}, n.Args...)
			}
		case *ast.SelectorExpr:
			p := r.pkgOf(n.X)
			name := n.Sel.Name
			switch p {
			case "time":
				if timeFuncs[name] {
					r.mark("T1", n.Sel, "time."+name)
					n.X = ast.NewIdent("simrt")
				}
			case "context":
				if name == "WithTimeout" || name == "WithDeadline" {
					r.mark("T1", n.Sel, "context."+name)
					n.X = ast.NewIdent("simrt")
				}
			case "crypto/rand":
				if name == "Read" {
					c.Replace(simrtSel("CryptoRead"))
					r.mark("T2", n, "crypto/rand.Read")
				} else if name == "Reader" {
					c.Replace(simrtSel("CryptoReader"))
					r.mark("T2", n, "crypto/rand.Reader")
				}
			case "math/rand":
				if !mathRandKeep[name] && ast.IsExported(name) {
					if _, isFunc := info.Uses[n.Sel].(*types.Func); isFunc {
						c.Replace(&ast.SelectorExpr{X: &ast.CallExpr{Fun: simrtSel("MathRand")}, Sel: ast.NewIdent(name)})
						r.mark("T2", n, "math/rand."+name)
					}
				}
			case "golang.org/x/sync/errgroup":
				if name == "WithContext" {
					c.Replace(simrtSel("GroupWithContext"))
					r.mark("T3", n, "errgroup.WithContext")
				}
			}
		}
		return true
	})
	if !r.changed {
		return
	}
	astutil.AddImport(r.fset, r.file, simrtPath)
	for _, path := range []string{"time", "context", "crypto/rand", "math/rand", "golang.org/x/sync/errgroup"} {
		if !astutil.UsesImport(r.file, path) {
			astutil.DeleteImport(r.fset, r.file, path)
		}
	}
}

// rewriteRange turns `for k, v := range m { body }` into
//
//	{ simM := m; for _, simK := range simrt.MapKeys(site, simM) { simV, simOK := simM[simK]; if !simOK { continue }; k, v := simK, simV; body } }
func (r *rewriter) rewriteRange(c *astutil.Cursor, n *ast.RangeStmt) {
	r.tmp++
	sfx := fmt.Sprintf("%d", r.tmp)
	mName, kName, vName, okName := "simM"+sfx, "simK"+sfx, "simV"+sfx, "simOK"+sfx
	siteID := r.pos(n)
	isBlank := func(e ast.Expr) bool {
		if e == nil {
			return true
		}
		id, ok := e.(*ast.Ident)
		return ok && id.Name == "_"
	}
	var pre []ast.Stmt
	pre = append(pre, &ast.AssignStmt{
		Lhs: []ast.Expr{ast.NewIdent(vName), ast.NewIdent(okName)}, Tok: token.DEFINE,
		Rhs: []ast.Expr{&ast.IndexExpr{X: ast.NewIdent(mName), Index: ast.NewIdent(kName)}},
	})
	pre = append(pre, &ast.IfStmt{Cond: &ast.UnaryExpr{Op: token.NOT, X: ast.NewIdent(okName)},
		Body: &ast.BlockStmt{List: []ast.Stmt{&ast.BranchStmt{Tok: token.CONTINUE}}}})
	pre = append(pre, &ast.AssignStmt{Lhs: []ast.Expr{ast.NewIdent("_")}, Tok: token.ASSIGN, Rhs: []ast.Expr{ast.NewIdent(vName)}})
	tok := n.Tok
	if tok == token.ILLEGAL {
		tok = token.DEFINE
	}
	if !isBlank(n.Key) {
		pre = append(pre, &ast.AssignStmt{Lhs: []ast.Expr{n.Key}, Tok: tok, Rhs: []ast.Expr{ast.NewIdent(kName)}})
		if tok == token.DEFINE {
			pre = append(pre, &ast.AssignStmt{Lhs: []ast.Expr{ast.NewIdent("_")}, Tok: token.ASSIGN, Rhs: []ast.Expr{n.Key}})
		}
	}
	if !isBlank(n.Value) {
		pre = append(pre, &ast.AssignStmt{Lhs: []ast.Expr{n.Value}, Tok: tok, Rhs: []ast.Expr{ast.NewIdent(vName)}})
		if tok == token.DEFINE {
			pre = append(pre, &ast.AssignStmt{Lhs: []ast.Expr{ast.NewIdent("_")}, Tok: token.ASSIGN, Rhs: []ast.Expr{n.Value}})
		}
	}
	body := &ast.BlockStmt{List: append(pre, n.Body.List...)}
	loop := &ast.RangeStmt{
		Key: ast.NewIdent("_"), Value: ast.NewIdent(kName), Tok: token.DEFINE,
		X: &ast.CallExpr{Fun: simrtSel("MapKeys"), Args: []ast.Expr{
			&ast.BasicLit{Kind: token.STRING, Value: fmt.Sprintf("%q", siteID)}, ast.NewIdent(mName)}},
		Body: body,
	}
	assign := &ast.AssignStmt{Lhs: []ast.Expr{ast.NewIdent(mName)}, Tok: token.DEFINE, Rhs: []ast.Expr{n.X}}
	r.mark("T4", n, "range over map")
	if lab, ok := c.Parent().(*ast.LabeledStmt); ok {
		// keep the label on the loop: { simM := m; L: for ... } cannot be produced by replacing
		// the child only, so the assignment goes into an immediately-invoked position before it:
		// L: for _, simK := range simrt.MapKeys(site, m)  — evaluate m inline instead.
		_ = lab
		loop.X = &ast.CallExpr{Fun: simrtSel("MapKeys"), Args: []ast.Expr{
			&ast.BasicLit{Kind: token.STRING, Value: fmt.Sprintf("%q", siteID)}, n.X}}
		body.List[0] = &ast.AssignStmt{
			Lhs: []ast.Expr{ast.NewIdent(vName), ast.NewIdent(okName)}, Tok: token.DEFINE,
			Rhs: []ast.Expr{&ast.IndexExpr{X: n.X, Index: ast.NewIdent(kName)}},
		}
		c.Replace(loop)
		return
	}
	c.Replace(&ast.BlockStmt{List: []ast.Stmt{assign, loop}})
}

#!/bin/bash
# tools/seedcheck.sh <seed-id> <worktree> <property> [more properties...]
# 1. confirms a sub-agent's seeded change in its scratch worktree (builds, suite passes with it, demo fails with / passes without),
# 2. stores it under /verif/seeded/<seed-id>/, 3. applies it to /repo, runs the quick checks, undoes it.
set -u
export GOFLAGS=-mod=mod GOPROXY=off GOSUMDB=off GOTOOLCHAIN=local
# SEED_PHASE=confirm does step 1+2 only (safe to run for several worktrees in parallel); SEED_PHASE=check does step 3 only
# (serial: it patches /repo) and needs only /verif/seeded/<seed-id>/patch.diff.
id=$1; wt=$2; shift 2
out=/verif/seeded/$id; mkdir -p $out
phase=${SEED_PHASE:-all}
if [ $phase = check ]; then
  cd /verif
  git -C /repo apply $out/patch.diff || { echo "patch does not apply to /repo"; exit 2; }
  results=""
  for p in "$@"; do
    VERIF_SEED=${VERIF_SEED:-4242} ./check $p > $out/check_$p.txt 2>&1; rc=$?
    line=$(grep -m1 "^VIOLATION" $out/check_$p.txt)
    oracle=$(grep -m1 "^violation:" $out/check_$p.txt | cut -c1-200)
    echo "check $id $p: exit=$rc $line | $oracle"
    results="$results $p:exit$rc"
  done
  git -C /repo checkout -- .
  python3 - "$out" "$results" <<'PY'
import json,sys,os
out,res=sys.argv[1:3]
f=os.path.join(out,'meta.json'); m=json.load(open(f)); m['checks_run']=res.split(); json.dump(m,open(f,'w'),indent=1)
PY
  exit 0
fi
cd $wt || exit 2
demo_cmd=$(grep -m1 -E "go test" _seed/demo_cmd.txt | sed 's/^[^g]*\(go test.*\)$/\1/' | sed 's/`//g')
demo_file=$(git status --porcelain | grep '^??' | grep -v _seed | awk '{print $2}' | head -1)
echo "demo_cmd: $demo_cmd ; demo_file: $demo_file"
r_build=fail; r_with=unknown; r_without=unknown; r_suite=fail
git apply --check -R _seed/patch.diff 2>/dev/null || git apply _seed/patch.diff
timeout 300 go build ./... && r_build=ok
if timeout 600 bash -c "$demo_cmd" > $out/demo_with_patch.txt 2>&1; then r_with=PASS; else r_with=FAIL; fi
git apply -R _seed/patch.diff
if timeout 600 bash -c "$demo_cmd" > $out/demo_without_patch.txt 2>&1; then r_without=PASS; else r_without=FAIL; fi
git apply _seed/patch.diff
mkdir -p /tmp/seedwt/.aside; mv $demo_file /tmp/seedwt/.aside/$id.demo.go
if timeout 1800 go test -vet=off -count=1 ./... > $out/suite_with_patch.txt 2>&1; then r_suite=ok; fi
mv /tmp/seedwt/.aside/$id.demo.go $demo_file
cp _seed/patch.diff $out/patch.diff; cp $demo_file $out/; cp _seed/notes.md $out/notes.md 2>/dev/null; echo "$demo_cmd (demo file goes to $demo_file)" > $out/demo_cmd.txt
echo "confirm: build=$r_build demo_with_patch=$r_with demo_without_patch=$r_without suite_with_patch=$r_suite"
results=""
if [ $phase = all ] && [ $r_build = ok ] && [ $r_with = FAIL ] && [ $r_without = PASS ] && [ $r_suite = ok ]; then
  V=${VSNAP:-/verif}
  cd $V
  git -C /repo apply $out/patch.diff || { echo "patch does not apply to /repo"; exit 2; }
  for p in "$@"; do
    VERIF_DIR=$V VERIF_SEED=${VERIF_SEED:-4242} ./check $p > $out/check_$p.txt 2>&1; rc=$?
    line=$(grep -m1 "^VIOLATION" $out/check_$p.txt)
    oracle=$(grep -m1 "^violation:" $out/check_$p.txt | cut -c1-200)
    echo "check $p: exit=$rc $line | $oracle"
    results="$results $p:exit$rc"
  done
  git -C /repo checkout -- .
fi
python3 - "$id" "$out" "$r_build" "$r_with" "$r_without" "$r_suite" "$results" "$@" <<'PY'
import json,sys,os
id,out,b,w,wo,s,res=sys.argv[1:8]; props=sys.argv[8:]
notes=open(os.path.join(out,'notes.md')).read() if os.path.exists(os.path.join(out,'notes.md')) else ''
meta={"id":id,"breaks_property":props[0],"confirmed":{"builds":b,"demo_with_patch":w,"demo_without_patch":wo,"existing_suite_with_patch":s},
      "checks_run":res.split(),"what_i_ran":"tools/seedcheck.sh: go build; demo with/without patch; whole suite with patch; git -C /repo apply; ./check <property> (quick); git -C /repo checkout -- .",
      "needs_to_manifest":"see notes.md (written by the sub-agent that produced the change)"}
json.dump(meta,open(os.path.join(out,'meta.json'),'w'),indent=1)
PY

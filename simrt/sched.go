// Package simrt is the runtime behind the source rewrites that simrewrite applies to a
// scratch copy of GOATNetwork/goat: simulated clock and timers, seeded entropy, a
// deterministic scheduler for the goroutines the application starts, seeded map iteration
// order, and the in-process dial override for the engine client. It is only ever compiled
// into the scratch copy (package github.com/goatnetwork/goat/verifsim/simrt).
//
// Deterministic mode: exactly one logical task runs at any time. A task is the ABCI call the
// harness makes (root) or a goroutine the application starts through a rewritten `go`
// statement / errgroup.Group.Go. A task gives up the processor only at seam points (task
// start and end, group wait, simulated sleep, and the harness' seam calls made inside the fake
// engine handler and the mempool wrapper). At each such point the scheduler draws the next
// task from the call's PRNG stream. A task may hop goroutines: while its goroutine is blocked
// inside rpc.Client.CallContext the JSON-RPC server goroutine that runs the fake engine
// handler acts on its behalf.
//
// Free mode (race binary): no token passing, so that the race detector sees only the
// application's own synchronisation; seam points inject Gosched calls.
package simrt

import (
	"context"
	"crypto/sha256"
	"encoding/binary"
	"encoding/hex"
	"errors"
	"fmt"
	"runtime"
	"runtime/debug"
	"sync"
	"sync/atomic"
	"time"

	"golang.org/x/sync/errgroup"
)

type Mode int

const (
	Det Mode = iota
	Free
)

var mode = Det

func SetMode(m Mode) { mode = m }

// IsFree reports whether goroutines run freely (race binary) instead of under the scheduler.
func IsFree() bool  { return mode == Free }
func GetMode() Mode { return mode }

// ---------------------------------------------------------------------------------------------
// Environment of the node whose code is running.

type Env struct {
	Node        int
	ClockOffset time.Duration
	EntropySeed uint64
	MapSeed     uint64

	mu      sync.Mutex
	ent     *Rand
	mapCtr  map[string]int
	MapUses int
}

func (e *Env) entropy() *lockedRand {
	e.mu.Lock()
	if e.ent == nil {
		e.ent = NewRand(e.EntropySeed)
	}
	e.mu.Unlock()
	return &lockedRand{e}
}

type lockedRand struct{ e *Env }

func (l *lockedRand) Read(b []byte) (int, error) {
	l.e.mu.Lock()
	defer l.e.mu.Unlock()
	return l.e.ent.Read(b)
}
func (l *lockedRand) Uint64() uint64 {
	l.e.mu.Lock()
	defer l.e.mu.Unlock()
	return l.e.ent.Uint64()
}

var (
	envPtr     atomic.Pointer[Env]
	defaultEnv = &Env{Node: -1, EntropySeed: 1, MapSeed: 1}
)

// SetEnv selects the node environment for the code that runs next. The harness calls it before
// every call into a node.
func SetEnv(e *Env) { envPtr.Store(e) }

func curEnv() *Env {
	if e := envPtr.Load(); e != nil {
		return e
	}
	return defaultEnv
}

// ---------------------------------------------------------------------------------------------
// Clock.

var Epoch = time.Date(2025, 1, 1, 0, 0, 0, 0, time.UTC)

var globalNow atomic.Int64 // nanoseconds since Epoch

func GlobalNow() time.Duration { return time.Duration(globalNow.Load()) }
func SetGlobalNow(d time.Duration) {
	globalNow.Store(int64(d))
}
func Advance(d time.Duration) { globalNow.Add(int64(d)) }

// Now is the wall clock of the node that is running (T1: time.Now).
func Now() time.Time                  { return Epoch.Add(GlobalNow() + curEnv().ClockOffset) }
func Since(t time.Time) time.Duration { return Now().Sub(t) }
func Until(t time.Time) time.Duration { return t.Sub(Now()) }

// ---------------------------------------------------------------------------------------------
// Scheduler.

type taskState int

const (
	tsRunnable taskState = iota
	tsRunning
	tsSleeping
	tsBlocked
	tsDone
)

type task struct {
	id           int
	state        taskState
	wakeAt       time.Duration
	park         chan bool
	scopes       []*scope
	inHandler    bool
	abortPending bool
	blockedOn    func() bool
	stall        bool
	gid          atomic.Uint64 // goroutine that runs the task's own code (0 until that goroutine has started)
}

type scope struct {
	id          int
	hasDeadline bool
	deadline    time.Duration
	cancelled   bool
	released    bool
	realDone    bool
	ctx         *simCtx
	err         error
}

func (sc *scope) doReal() {
	if !sc.realDone {
		sc.realDone = true
		sc.ctx.cancel(sc.err)
	}
}

type group struct {
	pending int
	scope   *scope
}

// CallResult describes one scheduled call.
type CallResult struct {
	Interleaving string // hash of the scheduling decisions
	Decisions    int
	Tasks        int
	Deadlock     bool   // nothing runnable, no timer: a stalled engine without deadline
	Panic        any    // panic on an application goroutine other than the root
	PanicStack   string // its stack
	Deadlines    int    // simulated deadlines that fired
	Leaked       int    // tasks still alive when the root returned
}

type Sched struct {
	tasks   []*task
	cur     *task
	yielded chan struct{}
	rng     *Rand
	scopes  []*scope
	groups  map[*errgroup.Group]*group
	wgs     map[*sync.WaitGroup]*int
	res     CallResult
	trace   []byte
	nextSc  int
}

var active atomic.Pointer[Sched]

func sched() *Sched {
	if mode != Det {
		return nil
	}
	return active.Load()
}

// Call runs f as the root task of a fresh scheduler whose choices come from seed.
func Call(seed uint64, f func()) CallResult {
	if mode != Det {
		f()
		return CallResult{}
	}
	if active.Load() != nil {
		panic("simrt: nested Call")
	}
	s := &Sched{
		yielded: make(chan struct{}),
		rng:     NewRand(seed),
		groups:  map[*errgroup.Group]*group{},
		wgs:     map[*sync.WaitGroup]*int{},
	}
	active.Store(s)
	defer active.Store(nil)
	root := s.newTask(nil)
	go s.runTask(root, root.park, f, nil)
	s.loop(root)
	sum := sha256.Sum256(s.trace)
	s.res.Interleaving = hex.EncodeToString(sum[:8])
	s.res.Tasks = len(s.tasks)
	return s.res
}

func (s *Sched) newTask(scopes []*scope) *task {
	t := &task{id: len(s.tasks), state: tsRunnable, park: make(chan bool, 1)}
	t.scopes = append(t.scopes, scopes...)
	s.tasks = append(s.tasks, t)
	return t
}

func (s *Sched) runTask(t *task, start chan bool, f func(), after func()) {
	t.gid.Store(goid())
	<-start
	defer func() {
		if r := recover(); r != nil {
			if s.res.Panic == nil {
				s.res.Panic = r
				s.res.PanicStack = string(debug.Stack())
			}
		}
		if after != nil {
			after()
		}
		t.state = tsDone
		s.yielded <- struct{}{}
	}()
	f()
}

func (s *Sched) note(kind byte, a, b int) {
	var w [9]byte
	w[0] = kind
	binary.LittleEndian.PutUint32(w[1:], uint32(a))
	binary.LittleEndian.PutUint32(w[5:], uint32(b))
	s.trace = append(s.trace, w[:]...)
}

func (s *Sched) loop(root *task) {
	for {
		// unblock
		for _, t := range s.tasks {
			if t.state == tsBlocked && t.blockedOn != nil && t.blockedOn() {
				t.state = tsRunnable
				t.blockedOn = nil
			}
		}
		var runnable []*task
		alive := 0
		for _, t := range s.tasks {
			if t.state != tsDone {
				alive++
			}
			if t.state == tsRunnable {
				runnable = append(runnable, t)
			}
		}
		if alive == 0 {
			return
		}
		if len(runnable) > 0 {
			t := runnable[0]
			if len(runnable) > 1 {
				i := s.rng.Intn(len(runnable))
				t = runnable[i]
				s.res.Decisions++
			}
			s.note('r', t.id, len(runnable))
			s.cur = t
			t.state = tsRunning
			aborted := false
			if t.abortPending {
				t.abortPending = false
				aborted = true
				for _, sc := range t.scopes {
					if sc.cancelled {
						sc.doReal()
					}
				}
				t.inHandler = false
			}
			ch := t.park
			t.park = nil
			if ch != nil {
				ch <- aborted
			}
			<-s.yielded
			continue
		}
		// nothing runnable: advance simulated time to the next timer
		var next *task
		var nextSc *scope
		var at time.Duration
		have := false
		for _, t := range s.tasks {
			if t.state == tsSleeping && (!have || t.wakeAt < at) {
				next, nextSc, at, have = t, nil, t.wakeAt, true
			}
		}
		for _, sc := range s.scopes {
			if sc.hasDeadline && !sc.cancelled && !sc.released && (!have || sc.deadline < at) {
				next, nextSc, at, have = nil, sc, sc.deadline, true
			}
		}
		if !have {
			if root.state == tsDone {
				// leftover tasks blocked for ever after the call returned
				for _, t := range s.tasks {
					if t.state != tsDone {
						s.res.Leaked++
					}
				}
				return
			}
			s.res.Deadlock = true
			s.note('d', 0, 0)
			return
		}
		if at > GlobalNow() {
			SetGlobalNow(at)
		}
		if nextSc != nil {
			s.res.Deadlines++
			s.note('t', nextSc.id, 0)
			nextSc.err = context.DeadlineExceeded
			s.cancelScope(nextSc)
		} else {
			s.note('w', next.id, 0)
			next.state = tsRunnable
		}
	}
}

func hasScope(t *task, sc *scope) bool {
	for _, x := range t.scopes {
		if x == sc {
			return true
		}
	}
	return false
}

// cancelScope cancels sc logically now; see the comment at the end for when the real context follows.
func (s *Sched) cancelScope(sc *scope) {
	if sc.cancelled {
		return
	}
	sc.cancelled = true
	if sc.err == nil {
		sc.err = context.Canceled
	}
	for _, t := range s.tasks {
		if t.state == tsDone || t.state == tsRunning || !hasScope(t, sc) {
			continue
		}
		if t.inHandler {
			t.abortPending = true
			t.state = tsRunnable
			t.blockedOn = nil
		} else if t.state == tsSleeping {
			t.state = tsRunnable
		}
	}
	// The real context is cancelled only (a) when a task parked in a handler under this scope is
	// scheduled next, (b) when a task under this scope next enters a handler, (c) when the owner
	// releases the scope. Cancelling it right away would let a task that has not issued its RPC
	// yet race between sending the request and seeing ctx.Done (rpc.Client selects on both).
}

// parkCur parks the current task (state already set) and hands the processor back.
func (s *Sched) parkCur() (aborted bool) {
	t := s.cur
	ch := make(chan bool, 1)
	t.park = ch
	s.yielded <- struct{}{}
	return <-ch
}

// ---------------------------------------------------------------------------------------------
// T6: engine requests. Every request the application sends to the execution layer passes through
// EngineCall on the goroutine that issues it. In deterministic mode only the task the scheduler is
// running may do that; a request from any other goroutine - one the application or one of its
// dependencies started behind the scheduler's back, or one that is still running after the ABCI
// call that started it has returned - is refused with an error and logged for the harness (serving
// it would let it race with the scheduled tasks and, since the handler acts "on behalf of the
// running task", deadlock the simulation).

var (
	engineGuard  atomic.Bool
	foreignMu    sync.Mutex
	foreignCalls []string
)

var startupGid atomic.Uint64

// StartingNode marks the calling goroutine as the one that starts a node (its engine requests - the
// client's start-up handshake - are legitimate although no scheduled call is in progress); the
// returned function ends that.
func StartingNode() func() {
	startupGid.Store(goid())
	return func() { startupGid.Store(0) }
}

// GuardEngineCalls switches the check on (the harness does so once a node is up: the start-up
// handshake of the engine client runs outside any scheduled call).
func GuardEngineCalls(on bool) { engineGuard.Store(on) }

// ForeignEngineCalls returns and clears the log of refused engine requests.
func ForeignEngineCalls() []string {
	foreignMu.Lock()
	defer foreignMu.Unlock()
	out := foreignCalls
	foreignCalls = nil
	return out
}

func goid() uint64 {
	var buf [64]byte
	n := runtime.Stack(buf[:], false)
	// "goroutine 123 [running]:"
	var id uint64
	for _, c := range buf[len("goroutine "):n] {
		if c < '0' || c > '9' {
			break
		}
		id = id*10 + uint64(c-'0')
	}
	return id
}

// foreign reports that a scheduler is active but the calling goroutine is not the task it is
// running: a goroutine started behind the scheduler's back (by a dependency), or one that outlived
// its ABCI call. Such a goroutine must never touch the scheduler's state: the seams below fall back
// to plain Go behaviour for it (without moving the simulated clock).
func foreign() bool {
	if mode != Det {
		return false
	}
	s := active.Load()
	// (a task whose goroutine has not started yet cannot be the caller either)
	return s != nil && s.cur != nil && s.cur.gid.Load() != goid()
}

// EngineCall wraps one JSON-RPC request of the engine client (pkg/ethrpc).
func EngineCall(call func() error) error {
	if mode != Det || !engineGuard.Load() {
		return call()
	}
	g := goid()
	if startupGid.Load() == g {
		return call() // the harness is starting a node on this goroutine (engine client handshake)
	}
	s := sched()
	if s != nil && s.cur != nil && s.cur.gid.Load() == g {
		return call()
	}
	where := "while no ABCI call was in progress"
	if s != nil {
		where = "from a goroutine that is not part of the ABCI call in progress"
	}
	stack := string(debug.Stack())
	if len(stack) > 1800 {
		stack = stack[:1800]
	}
	foreignMu.Lock()
	foreignCalls = append(foreignCalls, where+"\n"+stack)
	foreignMu.Unlock()
	return errors.New("simrt: engine request " + where + " refused")
}

// ---------------------------------------------------------------------------------------------
// Seam API for the harness.

func spin() {
	n := int(atomic.AddUint64(&spinCtr, 0x9e3779b97f4a7c15)>>60) & 7
	for i := 0; i < n; i++ {
		runtime.Gosched()
	}
}

var spinCtr uint64

// Yield is a scheduling point.
func Yield() {
	if foreign() {
		return
	}
	s := sched()
	if s == nil {
		if mode == Free {
			spin()
		}
		return
	}
	s.cur.state = tsRunnable
	s.parkCur()
}

// Handler is the fake engine's view of the task it is serving.
type Handler struct {
	s       *Sched
	t       *task
	aborted bool
}

// EnterHandler is called first thing in a fake-engine RPC handler.
func EnterHandler() *Handler {
	s := sched()
	if s == nil {
		if mode == Free {
			spin()
		}
		return &Handler{}
	}
	h := &Handler{s: s, t: s.cur}
	for _, sc := range h.t.scopes {
		if sc.cancelled {
			h.aborted = true
			sc.doReal()
			return h
		}
	}
	h.t.inHandler = true
	h.t.state = tsRunnable
	if s.parkCur() {
		h.aborted = true
	}
	return h
}

// Aborted reports that the caller gave up (deadline or cancellation); the handler must return
// without side effects and without touching the scheduler again.
func (h *Handler) Aborted() bool { return h.aborted }

// Sleep spends d of simulated time inside the handler (engine latency).
func (h *Handler) Sleep(d time.Duration) (aborted bool) {
	if h.aborted {
		return true
	}
	if h.s == nil {
		Advance(d)
		spin()
		return false
	}
	if d <= 0 {
		return false
	}
	h.t.state = tsSleeping
	h.t.wakeAt = GlobalNow() + d
	if h.s.parkCur() {
		h.aborted = true
	}
	return h.aborted
}

// Stall blocks until the caller gives up. Returns false when there is no scheduler.
func (h *Handler) Stall() (aborted bool) {
	if h.aborted {
		return true
	}
	if h.s == nil {
		return false
	}
	h.t.state = tsBlocked
	h.t.blockedOn = func() bool { return false }
	h.t.stall = true
	if h.s.parkCur() {
		h.aborted = true
	}
	return h.aborted
}

// Exit is called before a handler returns normally.
func (h *Handler) Exit() {
	if h.s != nil && !h.aborted {
		h.t.inHandler = false
	}
}

// ---------------------------------------------------------------------------------------------
// T1: timers and deadlines.

func Sleep(d time.Duration) {
	if foreign() {
		return
	}
	s := sched()
	if s == nil {
		if mode == Free || envPtr.Load() != nil {
			Advance(d)
			spin()
			return
		}
		time.Sleep(d)
		return
	}
	if d <= 0 {
		Yield()
		return
	}
	s.cur.state = tsSleeping
	s.cur.wakeAt = GlobalNow() + d
	s.parkCur()
}

// After sleeps in simulated time and returns an already-fired channel. (Inside a select with
// other cases this waits the full duration or until the task's deadline; the tree has no such
// use.)
func After(d time.Duration) <-chan time.Time {
	Sleep(d)
	ch := make(chan time.Time, 1)
	ch <- Now()
	return ch
}

func Tick(d time.Duration) <-chan time.Time { return After(d) }

type Timer struct{ C <-chan time.Time }

func NewTimer(d time.Duration) *Timer { return &Timer{C: After(d)} }
func (t *Timer) Stop() bool           { return false }
func (t *Timer) Reset(d time.Duration) bool {
	t.C = After(d)
	return false
}

func AfterFunc(d time.Duration, f func()) *Timer {
	Go(func() { Sleep(d); f() })
	return &Timer{}
}

type simCtx struct {
	context.Context
	mu   sync.Mutex
	done chan struct{}
	err  error
}

func newSimCtx(parent context.Context) *simCtx {
	c := &simCtx{Context: parent, done: make(chan struct{})}
	if pd := parent.Done(); pd != nil {
		go func() {
			select {
			case <-pd:
				c.cancel(parent.Err())
			case <-c.done:
			}
		}()
	}
	return c
}

func (c *simCtx) cancel(err error) {
	c.mu.Lock()
	defer c.mu.Unlock()
	if c.err != nil {
		return
	}
	if err == nil {
		err = context.Canceled
	}
	c.err = err
	close(c.done)
}

func (c *simCtx) Done() <-chan struct{} { return c.done }
func (c *simCtx) Err() error {
	c.mu.Lock()
	defer c.mu.Unlock()
	return c.err
}
func (c *simCtx) Deadline() (time.Time, bool) { return c.Context.Deadline() }

func WithTimeout(parent context.Context, d time.Duration) (context.Context, context.CancelFunc) {
	if foreign() {
		return context.WithCancel(parent)
	}
	s := sched()
	if s == nil {
		if mode == Free || envPtr.Load() != nil {
			return context.WithCancel(parent)
		}
		return context.WithTimeout(parent, d)
	}
	c := newSimCtx(parent)
	sc := &scope{id: s.nextSc, hasDeadline: true, deadline: GlobalNow() + d, ctx: c}
	s.nextSc++
	s.scopes = append(s.scopes, sc)
	t := s.cur
	t.scopes = append(t.scopes, sc)
	return c, func() {
		sc.released = true
		c.cancel(context.Canceled)
	}
}

func WithDeadline(parent context.Context, at time.Time) (context.Context, context.CancelFunc) {
	return WithTimeout(parent, at.Sub(Now()))
}

// ---------------------------------------------------------------------------------------------
// T3: goroutines, errgroup, WaitGroup.

func Go(f func()) {
	if foreign() {
		go f()
		return
	}
	s := sched()
	if s == nil {
		go f()
		return
	}
	child := s.newTask(s.cur.scopes)
	s.note('g', child.id, 0)
	go s.runTask(child, child.park, f, nil)
}

func GroupWithContext(ctx context.Context) (*errgroup.Group, context.Context) {
	if foreign() {
		return errgroup.WithContext(ctx)
	}
	s := sched()
	if s == nil {
		return errgroup.WithContext(ctx)
	}
	eg := new(errgroup.Group)
	c := newSimCtx(ctx)
	sc := &scope{id: s.nextSc, ctx: c}
	s.nextSc++
	s.scopes = append(s.scopes, sc)
	s.groups[eg] = &group{scope: sc}
	return eg, c
}

func (s *Sched) group(eg *errgroup.Group) *group {
	g := s.groups[eg]
	if g == nil {
		g = &group{}
		s.groups[eg] = g
	}
	return g
}

func GroupGo(eg *errgroup.Group, f func() error) {
	if foreign() {
		eg.Go(f)
		return
	}
	s := sched()
	if s == nil {
		eg.Go(f)
		return
	}
	g := s.group(eg)
	g.pending++
	scopes := s.cur.scopes
	if g.scope != nil {
		scopes = append(append([]*scope{}, scopes...), g.scope)
	}
	child := s.newTask(scopes)
	s.note('g', child.id, 0)
	start := child.park
	eg.Go(func() (err error) {
		s.runTask(child, start, func() { err = f() }, func() {
			g.pending--
			if err != nil && g.scope != nil {
				g.scope.err = context.Canceled
				s.cancelScope(g.scope)
			}
		})
		return err
	})
}

func GroupWait(eg *errgroup.Group) error {
	if foreign() {
		return eg.Wait()
	}
	s := sched()
	if s == nil {
		return eg.Wait()
	}
	g := s.group(eg)
	for g.pending > 0 {
		s.cur.state = tsBlocked
		s.cur.blockedOn = func() bool { return g.pending == 0 }
		s.parkCur()
	}
	if g.scope != nil {
		s.cancelScope(g.scope)
		g.scope.doReal()
	}
	return eg.Wait()
}

func WGAdd(wg *sync.WaitGroup, n int) {
	wg.Add(n)
	if s := sched(); s != nil && !foreign() {
		c := s.wgs[wg]
		if c == nil {
			c = new(int)
			s.wgs[wg] = c
		}
		*c += n
	}
}

func WGDone(wg *sync.WaitGroup) {
	if s := sched(); s != nil && !foreign() {
		if c := s.wgs[wg]; c != nil {
			*c--
		}
	}
	wg.Done()
}

func WGWait(wg *sync.WaitGroup) {
	if s := sched(); s != nil && !foreign() {
		if c := s.wgs[wg]; c != nil {
			for *c > 0 {
				s.cur.state = tsBlocked
				s.cur.blockedOn = func() bool { return *c <= 0 }
				s.parkCur()
			}
		}
	}
	wg.Wait()
}

func (r CallResult) String() string {
	return fmt.Sprintf("il=%s dec=%d tasks=%d deadlock=%v deadlines=%d", r.Interleaving, r.Decisions, r.Tasks, r.Deadlock, r.Deadlines)
}

package simrt

import (
	"fmt"
	"net/url"
	"sort"
	"sync"

	"github.com/ethereum/go-ethereum/rpc"
)

// ---------------------------------------------------------------------------------------------
// T4: seeded map iteration order.

// MapOrderNatural makes MapKeys return keys in sorted order on every node (used by profiles that
// must not be disturbed by order effects); default is a seeded permutation per node, site and use.
var MapOrderNatural bool

// MapKeys returns the keys of m in an order that is a pure function of the running node's map
// seed, the rewrite site and how often the site has been used by that node.
func MapKeys[K comparable, V any](site string, m map[K]V) []K {
	type kv struct {
		s string
		k K
	}
	tmp := make([]kv, 0, len(m))
	for k := range m {
		tmp = append(tmp, kv{fmt.Sprintf("%#v", k), k})
	}
	sort.Slice(tmp, func(i, j int) bool { return tmp[i].s < tmp[j].s })
	keys := make([]K, len(tmp))
	for i := range tmp {
		keys[i] = tmp[i].k
	}
	if MapOrderNatural || len(keys) < 2 {
		return keys
	}
	e := curEnv()
	e.mu.Lock()
	if e.mapCtr == nil {
		e.mapCtr = map[string]int{}
	}
	n := e.mapCtr[site]
	e.mapCtr[site] = n + 1
	e.MapUses++
	seed := e.MapSeed
	e.mu.Unlock()
	r := NewRand(Stream(seed, site, n))
	for i := len(keys) - 1; i > 0; i-- {
		j := r.Intn(i + 1)
		keys[i], keys[j] = keys[j], keys[i]
	}
	return keys
}

// ---------------------------------------------------------------------------------------------
// T5: in-process engine endpoints.

var (
	dialMu  sync.Mutex
	dialers = map[string]func() *rpc.Client{}
)

// RegisterEndpoint makes DialContext("sim://<name>") return clients produced by f.
func RegisterEndpoint(name string, f func() *rpc.Client) {
	dialMu.Lock()
	defer dialMu.Unlock()
	dialers[name] = f
}

// DialOverride is called first thing by the rewritten ethrpc.DialContext.
func DialOverride(rawurl string) *rpc.Client {
	u, err := url.Parse(rawurl)
	if err != nil || u.Scheme != "sim" {
		return nil
	}
	dialMu.Lock()
	f := dialers[u.Host]
	dialMu.Unlock()
	if f == nil {
		return nil
	}
	return f()
}

package simrt

import (
	"crypto/sha256"
	"encoding/binary"
	"fmt"
	"io"
	mathrand "math/rand"
)

// Rand is a small deterministic PRNG (splitmix64). Every consumer in the simulation owns
// its own stream derived with Stream(seed, labels...), so removing one consumer never
// reshuffles the choices of another.
type Rand struct{ s uint64 }

func NewRand(seed uint64) *Rand { return &Rand{s: seed} }

func (r *Rand) Uint64() uint64 {
	r.s += 0x9e3779b97f4a7c15
	z := r.s
	z = (z ^ (z >> 30)) * 0xbf58476d1ce4e5b9
	z = (z ^ (z >> 27)) * 0x94d049bb133111eb
	return z ^ (z >> 31)
}

// Intn returns a value in [0,n). n<=0 returns 0.
func (r *Rand) Intn(n int) int {
	if n <= 1 {
		return 0
	}
	return int(r.Uint64() % uint64(n))
}

func (r *Rand) Int63n(n int64) int64 {
	if n <= 1 {
		return 0
	}
	return int64(r.Uint64() % uint64(n))
}

func (r *Rand) Float64() float64 { return float64(r.Uint64()>>11) / (1 << 53) }

// Chance is true with probability p.
func (r *Rand) Chance(p float64) bool { return r.Float64() < p }

func (r *Rand) Bytes(n int) []byte {
	b := make([]byte, n)
	r.Read(b)
	return b
}

func (r *Rand) Read(b []byte) (int, error) {
	for i := 0; i < len(b); i += 8 {
		var w [8]byte
		binary.LittleEndian.PutUint64(w[:], r.Uint64())
		copy(b[i:], w[:])
	}
	return len(b), nil
}

func (r *Rand) Perm(n int) []int {
	p := make([]int, n)
	for i := range p {
		p[i] = i
	}
	for i := n - 1; i > 0; i-- {
		j := r.Intn(i + 1)
		p[i], p[j] = p[j], p[i]
	}
	return p
}

// Stream derives an independent seed from a parent seed and labels.
func Stream(seed uint64, labels ...any) uint64 {
	h := sha256.New()
	var w [8]byte
	binary.LittleEndian.PutUint64(w[:], seed)
	h.Write(w[:])
	for _, l := range labels {
		fmt.Fprintf(h, "|%v", l)
	}
	return binary.LittleEndian.Uint64(h.Sum(nil)[:8])
}

// ---- redirected entropy of the application (T2) ----

// CryptoRead replaces crypto/rand.Read inside GOAT code.
func CryptoRead(b []byte) (int, error) {
	env := curEnv()
	return env.entropy().Read(b)
}

type cryptoReader struct{}

func (cryptoReader) Read(b []byte) (int, error) { return CryptoRead(b) }

// CryptoReader replaces crypto/rand.Reader inside GOAT code.
var CryptoReader io.Reader = cryptoReader{}

type mrSource struct{}

func (mrSource) Int63() int64    { return int64(curEnv().entropy().Uint64() >> 1) }
func (mrSource) Uint64() uint64  { return curEnv().entropy().Uint64() }
func (mrSource) Seed(seed int64) {}

// MathRand replaces the package-level functions of math/rand inside GOAT code.
func MathRand() *mathrand.Rand { return mathrand.New(mrSource{}) }

package main

import (
	sdk "github.com/cosmos/cosmos-sdk/types"
)

func sdkAccFromBech32(s string) ([]byte, error) { return sdk.AccAddressFromBech32(s) }

package main

import (
	sdk "github.com/cosmos/cosmos-sdk/types"
)

func sdkAccFromBech32(s string) ([]byte, error) { return sdk.AccAddressFromBech32(s) }

func (w *World) applyProbeStep(st Step) (string, bool) {
	if st.K == "probe.drained" {
		return "ok", true
	}
	return "", false
}
func (w *World) genProbeStep(kind string, r *Rand, sub uint64) (Step, bool) { return Step{}, false }
func selftest(args []string) int                                            { return 0 }

package main

import (
	"time"

	abci "github.com/cometbft/cometbft/abci/types"
	cmttypes "github.com/cometbft/cometbft/types"
	sdk "github.com/cosmos/cosmos-sdk/types"
)

func sdkAccFromBech32(s string) ([]byte, error) { return sdk.AccAddressFromBech32(s) }

func (w *World) injectJunk(n *Node, kind string)                              {}
func (w *World) checkHonestProposalShape(n *Node, txs [][]byte, faulted bool) {}
func (w *World) mutateProposal(n *Node, h int64, t time.Time, pv *cmttypes.Validator, txs [][]byte, mut string) ([][]byte, bool) {
	return nil, false
}
func (w *World) judgeVerdicts(pn *Node, h int64, t time.Time, pv *cmttypes.Validator, txs [][]byte, verdicts map[int]bool, honest, faulted bool, spec RoundSpec) {
}
func (w *World) forceFinalize(pn *Node, h int64, round int, t time.Time, pv *cmttypes.Validator, txs [][]byte, hash []byte, ci abci.CommitInfo, misb []abci.Misbehavior, mut string) {
}
func (w *World) checkNothingPersisted(n *Node, b *DecidedBlock)                                  {}
func (w *World) checkFinalizeUnderFault(n *Node, b *DecidedBlock, r *abci.ResponseFinalizeBlock) {}
func (w *World) reexecute(n *Node, b *DecidedBlock)                                              {}

var byzMutations = []string{"drop-first"}
var junkKinds = []string{"stale"}

func (w *World) applyProbeStep(st Step) (string, bool) {
	if st.K == "probe.drained" {
		return "ok", true
	}
	return "", false
}
func (w *World) genProbeStep(kind string, r *Rand, sub uint64) (Step, bool) { return Step{}, false }
func selftest(args []string) int                                            { return 0 }

package main

import (
	"context"
	"fmt"
	"os"
	"path/filepath"
	"runtime/debug"
	"time"

	"cosmossdk.io/log"
	"cosmossdk.io/store"
	abci "github.com/cometbft/cometbft/abci/types"
	cmtjson "github.com/cometbft/cometbft/libs/json"
	"github.com/cometbft/cometbft/privval"
	"github.com/cosmos/cosmos-sdk/baseapp"
	sdk "github.com/cosmos/cosmos-sdk/types"
	"github.com/cosmos/cosmos-sdk/types/mempool"
	"github.com/cosmos/gogoproto/proto"
	goatapp "github.com/goatnetwork/goat/app"
	"github.com/goatnetwork/goat/verifsim/simrt"
)

const chainID = "goat-sim-1"

type appOpts map[string]interface{}

func (m appOpts) Get(k string) interface{} { return m[k] }

// Node is one replica: the real application on a simulated disk next to its own fake engine.
type Node struct {
	ID             int
	W              *World
	Key            *SecpKey
	DB             *FaultDB
	EL             *ELNode
	App            *goatapp.App
	Pool           *poolWrap
	Env            *simrt.Env
	Home           string
	Alive          bool
	Height         int64 // last committed height
	AppHash        []byte
	CmtPool        [][]byte // the consensus engine's mempool on this node (tx bytes that passed CheckTx)
	Crashes        int
	Calls          int
	DownFor        int // block steps until automatic restart (0 = stays down until told)
	ShadowEndpoint string
	LastErr        string

	lastCalls         []EngineCall
	lastFaulted       bool
	lastEngineTrouble bool
	lastEnvTrouble    bool     // the engine was out of sync or asked for a non-increasing timestamp during the last PrepareProposal
	lastInjected      bool     // an injected engine fault fired during the last PrepareProposal
	lastGoatRejects   []string // the engine refused to build on the system transactions of the last PrepareProposal
}

func (w *World) newNode(id int, key *SecpKey) *Node {
	n := &Node{ID: id, W: w, Key: key, DB: newFaultDB()}
	n.EL = newELNode(id, w.EL, w.Seed)
	n.Env = &simrt.Env{Node: id, EntropySeed: stream(w.Seed, "entropy", id), MapSeed: stream(w.Seed, "maporder", id)}
	if id < len(w.Cfg.ClockSkewMs) {
		n.Env.ClockOffset = time.Duration(w.Cfg.ClockSkewMs[id]) * time.Millisecond
	}
	n.Home = filepath.Join(w.Dir, fmt.Sprintf("node%d", id))
	if err := os.MkdirAll(n.Home, 0o755); err != nil {
		panic(harnessError{err.Error()})
	}
	pv := privval.FilePVKey{Address: key.CmtPriv().PubKey().Address(), PubKey: key.CmtPriv().PubKey(), PrivKey: key.CmtPriv()}
	bz, err := cmtjson.MarshalIndent(pv, "", "  ")
	if err != nil {
		panic(harnessError{err.Error()})
	}
	if err := os.WriteFile(filepath.Join(n.Home, "pv.json"), bz, 0o600); err != nil {
		panic(harnessError{err.Error()})
	}
	n.start()
	return n
}

// start builds the application object on the node's disk (first start or restart after a crash).
func (n *Node) start() {
	simrt.SetEnv(n.Env)
	// the engine client's start-up handshake runs outside any scheduled call
	simrt.GuardEngineCalls(true)
	defer simrt.StartingNode()()
	cfg := n.W.Cfg
	n.Pool = newPoolWrap(mempool.NewSenderNonceMempool(mempool.SenderNonceSeedOpt(int64(stream(n.W.Seed, "mempool", n.ID, n.Crashes)>>1)), mempool.SenderNonceMaxTxOpt(5000)))
	opts := []func(*baseapp.BaseApp){baseapp.SetChainID(chainID), baseapp.SetMempool(n.Pool)}
	if n.ID < len(cfg.IAVLCache) && cfg.IAVLCache[n.ID] > 0 {
		opts = append(opts, baseapp.SetIAVLCacheSize(cfg.IAVLCache[n.ID]))
	}
	if n.ID < len(cfg.FastNodeOff) && cfg.FastNodeOff[n.ID] {
		opts = append(opts, baseapp.SetIAVLDisableFastNode(true))
	}
	if n.ID < len(cfg.InterBlockCache) && cfg.InterBlockCache[n.ID] {
		opts = append(opts, baseapp.SetInterBlockCache(store.NewCommitKVStoreCacheManager()))
	}
	a, err := goatapp.New(errLogger{nodeLogger(), n}, n.DB, nil, true, appOpts{
		"goat.geth": fmt.Sprintf("sim://el%d", n.EL.ID), "priv_validator_key_file": "pv.json", "home": n.Home,
	}, opts...)
	if err != nil {
		panic(harnessError{"app.New: " + err.Error()})
	}
	n.App = a
	n.Alive = true
	n.CmtPool = nil
	// what CometBFT's handshake does: ask the application where it is; InitChain again if it has nothing
	n.Height = a.LastBlockHeight()
	n.AppHash = a.LastCommitID().Hash
	if n.Height == 0 && n.W.InitReq != nil {
		var ierr error
		out := n.run("initchain", func() { _, ierr = n.App.InitChain(n.W.InitReq) })
		if out.Panic != nil || ierr != nil {
			panic(harnessError{fmt.Sprintf("InitChain on restart failed: %v %v", out.Panic, ierr)})
		}
	}
}

func nodeLogger() log.Logger {
	if os.Getenv("VERIF_LOG") != "" {
		return log.NewLogger(os.Stderr)
	}
	return log.NewNopLogger()
}

// errLogger keeps the last error-level message a node logged (the reason of a rejected proposal).
type errLogger struct {
	log.Logger
	n *Node
}

func (l errLogger) Error(msg string, kv ...any) {
	l.n.LastErr = fmt.Sprint(msg, " ", kv)
	l.Logger.Error(msg, kv...)
}
func (l errLogger) With(kv ...any) log.Logger { return errLogger{l.Logger.With(kv...), l.n} }

// crash discards everything that is not on the simulated disk.
func (n *Node) crash(why string) {
	n.App = nil
	n.Pool = nil
	n.Alive = false
	n.Crashes++
	n.CmtPool = nil
	n.DB.disarm()
	n.W.note("crash", fmt.Sprintf("node %d: %s", n.ID, why))
}

// CallOutcome is what one ABCI call did besides its response.
type CallOutcome struct {
	Sched   simrt.CallResult
	Panic   any
	Stack   string
	Crashed bool // crash signal from the simulated disk
}

// run executes f as one scheduled call on this node.
// checkForeignEngineCalls: C07 / C09. The execution layer is told about a block only by the ABCI
// call that processes it. A request that reaches the engine client from any other goroutine (one a
// dependency started behind the scheduler's back, such as an optimistic execution of the proposal,
// or one that outlives the call that started it) makes the engine calls of a block depend on what
// else happened at that height on that node - rounds that were never decided, timing - and tells
// the engine heads that nobody finalised.
func (w *World) checkForeignEngineCalls(when string) {
	for _, fc := range simrt.ForeignEngineCalls() {
		w.Stats.OracleEvals["C07"]++
		w.Stats.OracleEvals["C09"]++
		w.violate("C07", "engine-request-outside-abci-call", "foreign-goroutine", "after %s: the application sent an engine request %s", when, fc)
		w.violate("C09", "engine-request-outside-abci-call", "foreign-goroutine", "after %s: the application sent an engine request %s", when, fc)
	}
}

func (n *Node) run(kind string, f func()) CallOutcome {
	n.Calls++
	simrt.SetEnv(n.Env)
	var out CallOutcome
	seed := stream(n.W.Seed, "sched", n.ID, n.W.SchedSalt, n.Calls)
	out.Sched = simrt.Call(seed, func() {
		defer func() {
			if r := recover(); r != nil {
				if cs, ok := r.(crashSignal); ok {
					out.Crashed = true
					_ = cs
					return
				}
				if he, ok := r.(harnessError); ok {
					panic(he)
				}
				out.Panic = r
				out.Stack = string(debug.Stack())
			}
		}()
		f()
	})
	if out.Sched.Panic != nil && out.Panic == nil {
		out.Panic = out.Sched.Panic
		out.Stack = out.Sched.PanicStack
	}
	n.W.checkForeignEngineCalls(fmt.Sprintf("%s on node %d", kind, n.ID))
	n.W.tr("call", kind, fmt.Sprint(n.ID), out.Sched.Interleaving, fmt.Sprint(out.Panic != nil, out.Crashed, out.Sched.Deadlock))
	n.W.Stats.Interleavings[kind+"/"+out.Sched.Interleaving]++
	n.W.Stats.SchedDecisions += out.Sched.Decisions
	n.W.Stats.Deadlines += out.Sched.Deadlines
	return out
}

// query runs a gRPC query against the node's committed state through the public ABCI Query.
func (n *Node) query(path string, req, resp proto.Message) error {
	simrt.SetEnv(n.Env)
	bz, err := proto.Marshal(req)
	if err != nil {
		return err
	}
	r, err := n.App.Query(context.Background(), &abci.RequestQuery{Path: path, Data: bz})
	if err != nil {
		return err
	}
	if r.Code != 0 {
		return fmt.Errorf("query %s: code %d: %s", path, r.Code, r.Log)
	}
	return proto.Unmarshal(r.Value, resp)
}

// ctx returns a read-only context over the last committed state.
func (n *Node) ctx() sdk.Context {
	simrt.SetEnv(n.Env)
	return n.App.NewUncachedContext(true, n.W.Cmt.headerFor(n.Height))
}

// ---------------------------------------------------------------------------------------------
// mempool wrapper: seam points + junk injection

type poolWrap struct {
	inner   mempool.Mempool
	Junk    []sdk.Tx // returned first by Select (arbitrary mempool content, C08)
	Selects int
	Removed int
}

func newPoolWrap(inner mempool.Mempool) *poolWrap { return &poolWrap{inner: inner} }

func (p *poolWrap) Insert(ctx context.Context, tx sdk.Tx) error {
	simrt.Yield()
	return p.inner.Insert(ctx, tx)
}

func (p *poolWrap) CountTx() int { return p.inner.CountTx() + len(p.Junk) }

func (p *poolWrap) Remove(tx sdk.Tx) error {
	simrt.Yield()
	for i, j := range p.Junk {
		if j == tx {
			p.Junk = append(p.Junk[:i:i], p.Junk[i+1:]...)
			p.Removed++
			return nil
		}
	}
	p.Removed++
	return p.inner.Remove(tx)
}

type poolIter struct {
	p    *poolWrap
	junk []sdk.Tx
	it   mempool.Iterator
}

func (p *poolWrap) Select(ctx context.Context, txs [][]byte) mempool.Iterator {
	simrt.Yield()
	p.Selects++
	it := &poolIter{p: p, junk: append([]sdk.Tx{}, p.Junk...), it: p.inner.Select(ctx, txs)}
	if len(it.junk) == 0 && it.it == nil {
		return nil
	}
	return it
}

func (i *poolIter) Tx() sdk.Tx {
	simrt.Yield()
	if len(i.junk) > 0 {
		return i.junk[0]
	}
	return i.it.Tx()
}

func (i *poolIter) Next() mempool.Iterator {
	simrt.Yield()
	if len(i.junk) > 0 {
		i.junk = i.junk[1:]
	} else if i.it != nil {
		i.it = i.it.Next()
	}
	if len(i.junk) == 0 && i.it == nil {
		return nil
	}
	return i
}

package main

import (
	"encoding/json"
	"fmt"
	"math/big"
	"os"
	"strings"
	"time"

	"cosmossdk.io/math"
	abci "github.com/cometbft/cometbft/abci/types"
	cmtproto "github.com/cometbft/cometbft/proto/tendermint/types"
	cmttypes "github.com/cometbft/cometbft/types"
	codectypes "github.com/cosmos/cosmos-sdk/codec/types"
	sdk "github.com/cosmos/cosmos-sdk/types"
	authtypes "github.com/cosmos/cosmos-sdk/x/auth/types"
	"github.com/ethereum/go-ethereum/common"
	"github.com/goatnetwork/goat/verifsim/simrt"
	bitcointypes "github.com/goatnetwork/goat/x/bitcoin/types"
	goattypes "github.com/goatnetwork/goat/x/goat/types"
	lockingtypes "github.com/goatnetwork/goat/x/locking/types"
	relayertypes "github.com/goatnetwork/goat/x/relayer/types"
)

// ValActor is a validator identity known to the simulator.
type ValActor struct {
	Idx     int
	Key     *SecpKey
	Node    int // replica index or -1
	Genesis bool
}

func (v *ValActor) Addr() common.Address { return v.Key.EthAddr() }

// RelMember is a relayer group member identity (tx key + vote key).
type RelMember struct {
	Idx  int
	Tx   *SecpKey
	Vote *BLSKey
}

func (m *RelMember) Addr() string { return m.Tx.Bech32() }

type Stats struct {
	Heights        int
	Rounds         int
	Steps          map[string]int
	StepOutcomes   map[string]int
	Faults         map[string]int
	Probes         map[string]int
	Interleavings  map[string]int
	SchedDecisions int
	Deadlines      int
	OracleEvals    map[string]int
	AbstractStates map[string]bool
	SimTime        time.Duration
	TxOK           int
	TxFail         int
}

func newStats() *Stats {
	return &Stats{Steps: map[string]int{}, StepOutcomes: map[string]int{}, Faults: map[string]int{}, Probes: map[string]int{},
		Interleavings: map[string]int{}, OracleEvals: map[string]int{}, AbstractStates: map[string]bool{}}
}

// Violation is one oracle firing.
type Violation struct {
	Property string `json:"property"`
	Oracle   string `json:"oracle"`
	Detail   string `json:"detail"`
	Height   int64  `json:"height"`
	Step     int    `json:"step"`
	Shape    string `json:"shape,omitempty"` // canonical shape for matching known findings
}

// World is one simulated deployment.
type World struct {
	Seed               uint64
	Cfg                Config
	Dir                string
	Nodes              []*Node
	EL                 *ELChain
	Cmt                *Cmt
	Btc                *BtcSim
	Vals               []*ValActor
	Members            []*RelMember
	BtcKeys            []*SecpKey // relayer bitcoin keys (index 0 = genesis key)
	Users              []common.Address
	Stats              *Stats
	Viol               []*Violation
	Notes              []string
	StepNo             int
	SchedSalt          uint64
	M                  *Models
	G                  *genState
	R                  *RelState
	PendingVoted       int
	BadSigTx           map[string]bool // hashes of transactions the actors built with a signature that does not verify
	decodedBad         map[sdk.Tx]bool // decoded forms of such transactions (see decodeTx)
	Bundle             *txBundle       // non-nil while the sub-steps of a rel.bundle step are applied
	pendingTruths      []*VoteTruth    // per-message truths of the transaction being submitted
	PendingHashes      int
	JunkVotes          int
	Tainted            bool
	ProbeTxs           [][]byte
	TraceH             []byte
	Seen               map[string]bool
	InitReq            *abci.RequestInitChain
	Trace              bool
	FirstViolationOnly bool
}

func (w *World) note(kind, msg string) {
	if w.Trace {
		w.Notes = append(w.Notes, fmt.Sprintf("[h%d s%d] %s: %s", w.Cmt.Height, w.StepNo, kind, msg))
	}
}

func (w *World) fault(kind string) { w.Stats.Faults[kind]++ }

// tr folds an event into the run's trace hash (determinism self-test); it never draws or reads a clock.
func (w *World) tr(parts ...string) {
	w.TraceH = sha(w.TraceH, []byte(strings.Join(parts, "|")))
	if traceFile != nil {
		fmt.Fprintln(traceFile, strings.Join(parts, "|"))
	}
}

var traceFile = func() *os.File {
	if p := os.Getenv("VERIF_TRACEFILE"); p != "" {
		f, _ := os.Create(p)
		return f
	}
	return nil
}()

func (w *World) probe(kind string) { w.Stats.Probes[kind]++ }

func (w *World) violate(prop, oracle, shape, format string, args ...any) {
	v := &Violation{Property: prop, Oracle: oracle, Detail: fmt.Sprintf(format, args...), Step: w.StepNo, Shape: shape}
	if w.Cmt != nil {
		v.Height = w.Cmt.Height
	}
	for _, o := range w.Viol {
		if o.Property == v.Property && o.Oracle == v.Oracle && o.Shape == v.Shape {
			return // one report per oracle and shape is enough
		}
	}
	w.Viol = append(w.Viol, v)
}

func (w *World) aliveNodes() []*Node {
	var out []*Node
	for _, n := range w.Nodes {
		if n.Alive {
			out = append(out, n)
		}
	}
	return out
}

// refNode returns a live node at the chain tip (for queries by oracles).
func (w *World) refNode() *Node {
	for _, n := range w.Nodes {
		if n.Alive && n.Height == w.Cmt.Height {
			return n
		}
	}
	return nil
}

func weiOf(units int64) *big.Int {
	return new(big.Int).Mul(big.NewInt(units), big.NewInt(1e18))
}

// newWorld builds the deployment: keys, execution-layer genesis, nodes, application genesis, InitChain.
func newWorld(seed uint64, cfg Config, trace bool) *World {
	w := &World{Seed: seed, Cfg: cfg, Stats: newStats(), Trace: trace}
	scratch := os.Getenv("VERIF_SCRATCH")
	if scratch == "" {
		if st, err := os.Stat("/dev/shm"); err == nil && st.IsDir() {
			scratch = "/dev/shm"
		} else {
			scratch = "/var/tmp"
		}
	}
	dir, err := os.MkdirTemp(scratch, "goatsim-run-")
	if err != nil {
		panic(harnessError{err.Error()})
	}
	w.Dir = dir
	simrt.SetGlobalNow(0)
	simrt.MapOrderNatural = cfg.NaturalMapOrder

	// identities
	for i := 0; i < cfg.Nodes+cfg.ExtraVals; i++ {
		node := -1
		if i < cfg.Nodes {
			node = i
		}
		w.Vals = append(w.Vals, &ValActor{Idx: i, Key: newSecpKey(seed, "val", i), Node: node, Genesis: true})
	}
	for i := 0; i < cfg.Voters+1; i++ {
		w.Members = append(w.Members, &RelMember{Idx: i, Tx: newSecpKey(seed, "reltx", i), Vote: newBLSKey(seed, "relvote", i)})
	}
	w.BtcKeys = []*SecpKey{newSecpKey(seed, "btckey", 0)}
	for i := 0; i < 6; i++ {
		w.Users = append(w.Users, common.BytesToAddress(sha([]byte("user"), u64le(uint64(i)))[:20]))
	}

	// execution-layer genesis
	els := newELState()
	for _, t := range cfg.Tokens {
		els.Tokens[common.HexToAddress(t.Addr)] = &ELToken{Weight: t.Weight, Threshold: mustBig(t.Threshold)}
	}
	genLock := map[int]map[string]*big.Int{}
	for _, v := range w.Vals {
		r := newRand(seed, "genlock", v.Idx)
		locks := map[string]*big.Int{}
		for _, t := range cfg.Tokens {
			amt := new(big.Int).Add(mustBig(t.Threshold), weiOf(int64(1+r.Intn(40))))
			if v.Node >= 0 {
				// replica-backed validators dominate proposer selection so that heights get decided
				amt.Add(amt, weiOf(100000))
			}
			locks[t.Addr] = amt
		}
		genLock[v.Idx] = locks
		ev := &ELValidator{Locked: map[string]*big.Int{}}
		for k, a := range locks {
			ev.Locked[k] = new(big.Int).Set(a)
		}
		els.Vals[v.Addr()] = ev
	}
	for _, m := range w.Members {
		els.Voters[m.Tx.EthAddr()] = true
	}
	w.EL = newELChain(els, uint64(simrt.Epoch.Unix()))
	if w.Cfg.ELMaxOps > 0 {
		w.EL.MaxOps = w.Cfg.ELMaxOps
	}
	w.Btc = newBtcSim(w)

	// nodes
	for i := 0; i < cfg.Nodes; i++ {
		w.Nodes = append(w.Nodes, w.newNode(i, w.Vals[i].Key))
	}

	w.txConfig()
	// application genesis
	app0 := w.Nodes[0].App
	cdc := app0.AppCodec()
	gen := app0.DefaultGenesis()

	var accounts authtypes.GenesisAccounts
	accNum := uint64(0)
	for _, v := range w.Vals {
		accounts = append(accounts, authtypes.NewBaseAccount(v.Key.AccAddress(), v.Key.Priv.PubKey(), accNum, 0))
		accNum++
	}
	for _, m := range w.Members {
		accounts = append(accounts, authtypes.NewBaseAccount(m.Tx.AccAddress(), m.Tx.Priv.PubKey(), accNum, 0))
		accNum++
	}
	packed, err := authtypes.PackAccounts(accounts)
	if err != nil {
		panic(harnessError{err.Error()})
	}
	var _ []*codectypes.Any = packed
	authGen := authtypes.NewGenesisState(authtypes.DefaultParams(), accounts)
	gen[authtypes.ModuleName] = cdc.MustMarshalJSON(authGen)

	// relayer
	rel := relayertypes.DefaultGenesis()
	rel.Params = relayertypes.Params{ElectingPeriod: time.Duration(cfg.ElectingSec) * time.Second, AcceptProposerTimeout: time.Duration(cfg.AcceptTimeoutSec) * time.Second}
	rl := &relayertypes.Relayer{Proposer: w.Members[0].Addr(), Epoch: 0, LastElected: simrt.Epoch, ProposerAccepted: true}
	for i, m := range w.Members {
		if i > 0 {
			rl.Voters = append(rl.Voters, m.Addr())
		}
		rel.Voters = append(rel.Voters, relayertypes.Voter{Address: m.Tx.AccAddress(), VoteKey: m.Vote.Pub, Status: relayertypes.VOTER_STATUS_ACTIVATED})
	}
	rel.Relayer = rl
	btcPub := relayerPubKey(w.BtcKeys[0], cfg.KeySchnorr)
	rel.Pubkeys = []*relayertypes.PublicKey{btcPub}
	rel.Randao = sha([]byte("randao"), u64le(seed))
	gen[relayertypes.ModuleName] = cdc.MustMarshalJSON(rel)

	// bitcoin
	btc := bitcointypes.DefaultGenesis()
	btc.Params = bitcointypes.Params{NetworkName: cfg.Network, ConfirmationNumber: cfg.Confirmations, MinDepositAmount: cfg.MinDeposit,
		DepositMagicPrefix: []byte(cfg.Magic), DepositTaxRate: cfg.TaxRate, MaxDepositTax: cfg.TaxMax}
	btc.Pubkey = btcPub
	btc.BlockTip = w.Btc.Tip()
	btc.BlockHashes = [][]byte{w.Btc.Blocks[w.Btc.Tip()].Hash}
	btc.EthTxQueue.BlockNumber = w.Btc.Tip()
	gen[bitcointypes.ModuleName] = cdc.MustMarshalJSON(btc)

	// locking
	lk := lockingtypes.DefaultGenesis()
	lk.Params = lockingtypes.Params{
		UnlockDuration: time.Duration(cfg.UnlockSec) * time.Second, ExitingDuration: time.Duration(cfg.ExitSec) * time.Second,
		DowntimeJailDuration: time.Duration(cfg.JailSec) * time.Second, MaxValidators: cfg.MaxValidators,
		SignedBlocksWindow: cfg.SignedBlocksWindow, MaxMissedPerWindow: cfg.MaxMissed,
		SlashFractionDoubleSign: math.LegacyMustNewDecFromStr(cfg.SlashDouble), SlashFractionDowntime: math.LegacyMustNewDecFromStr(cfg.SlashDowntime),
		HalvingInterval: cfg.HalvingInterval, InitialBlockReward: cfg.InitialReward,
	}
	if err := lk.Params.Validate(); err != nil {
		panic(harnessError{"locking params: " + err.Error()})
	}
	for _, t := range cfg.Tokens {
		thr, _ := math.NewIntFromString(t.Threshold)
		lk.Tokens = append(lk.Tokens, &lockingtypes.TokenGenesis{Denom: lockingtypes.TokenDenom(common.HexToAddress(t.Addr)), Token: lockingtypes.Token{Weight: t.Weight, Threshold: thr}})
	}
	// the top MaxValidators genesis validators by power are active, the rest pending
	type gv struct {
		v     *ValActor
		power uint64
		coins sdk.Coins
	}
	var gvs []gv
	for _, v := range w.Vals {
		coins := sdk.Coins{}
		power := new(big.Int)
		for _, t := range cfg.Tokens {
			amt := genLock[v.Idx][t.Addr]
			if amt.Sign() > 0 {
				coins = coins.Add(sdk.NewCoin(lockingtypes.TokenDenom(common.HexToAddress(t.Addr)), math.NewIntFromBigInt(amt)))
			}
			p := new(big.Int).Mul(new(big.Int).SetUint64(t.Weight), amt)
			p.Div(p, big.NewInt(1e18))
			power.Add(power, p)
		}
		gvs = append(gvs, gv{v, power.Uint64(), coins})
	}
	// replica-backed validators first so that at least they are active
	active := 0
	for _, g := range gvs {
		st := lockingtypes.Pending
		if int64(active) < cfg.MaxValidators && g.power > 0 {
			st = lockingtypes.Active
			active++
		}
		lk.Validators = append(lk.Validators, lockingtypes.Validator{Pubkey: g.v.Key.Pub, Power: g.power, Locking: g.coins,
			Reward: math.ZeroInt(), GasReward: math.ZeroInt(), Status: st})
	}
	remain, _ := math.NewIntFromString(cfg.RewardRemain)
	lk.RewardPool = lockingtypes.RewardPool{Goat: math.ZeroInt(), Gas: math.ZeroInt(), Remain: remain}
	gen[lockingtypes.ModuleName] = cdc.MustMarshalJSON(lk)

	// goat
	gg := &goattypes.GenesisState{Params: goattypes.Params{}, EthBlock: *goattypes.ExecutableDataToPayload(w.EL.Genesis.executable(), nil, nil), BeaconRoot: make([]byte, 32)}
	gen[goattypes.ModuleName] = cdc.MustMarshalJSON(gg)

	appState, err := json.Marshal(gen)
	if err != nil {
		panic(harnessError{err.Error()})
	}

	cp := cmttypes.DefaultConsensusParams()
	cp.Validator.PubKeyTypes = []string{cmttypes.ABCIPubKeyTypeSecp256k1}
	cp.Evidence.MaxAgeNumBlocks = cfg.EvidenceMaxAgeBlocks
	cp.Evidence.MaxAgeDuration = time.Duration(cfg.EvidenceMaxAgeSec) * time.Second
	cpp := cp.ToProto()
	w.Cmt = newCmt(w, &cpp)
	w.M = newModels(w, genLock, remain.BigInt())

	req := &abci.RequestInitChain{ChainId: chainID, InitialHeight: 1, Time: simrt.Epoch, ConsensusParams: &cpp, AppStateBytes: appState}
	var first *abci.ResponseInitChain
	for _, n := range w.Nodes {
		var resp *abci.ResponseInitChain
		var ierr error
		out := n.run("initchain", func() { resp, ierr = n.App.InitChain(req) })
		if out.Panic != nil || ierr != nil {
			panic(harnessError{fmt.Sprintf("InitChain failed: %v %v\n%s", out.Panic, ierr, out.Stack)})
		}
		if first == nil {
			first = resp
		}
	}
	w.InitReq = req
	w.Cmt.initValidators(first.Validators)
	w.Cmt.AppHash = first.AppHash
	_ = cmtproto.Header{}
	return w
}

func (w *World) close() {
	if w.Dir != "" {
		os.RemoveAll(w.Dir)
	}
}

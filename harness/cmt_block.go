package main

import (
	"bytes"
	"fmt"
	"regexp"
	"strings"
	"time"

	abci "github.com/cometbft/cometbft/abci/types"
	cmttypes "github.com/cometbft/cometbft/types"
	"github.com/ethereum/go-ethereum/common"
	"github.com/goatnetwork/goat/verifsim/simrt"
)

func toEngineFaults(node int, fs []*NodeFault) []*EngineFault {
	var out []*EngineFault
	for _, f := range fs {
		if f.Node == node {
			out = append(out, &EngineFault{Call: f.Call, Kind: f.Kind})
		}
	}
	return out
}

type roundResult struct {
	Txs       [][]byte
	Proposer  *cmttypes.Validator
	Node      *Node
	Accepts   map[int]bool
	Prepared  bool
	PrepFault bool
	ProcFault map[int]bool
}

func (c *Cmt) prepareOn(n *Node, h int64, t time.Time, proposer []byte, eci abci.ExtendedCommitInfo, faults []*EngineFault) ([][]byte, CallOutcome, error) {
	n.EL.arm(faults)
	req := &abci.RequestPrepareProposal{MaxTxBytes: 4 << 20, Txs: n.CmtPool, LocalLastCommit: eci, Height: h, Time: t,
		NextValidatorsHash: c.NextVals.Hash(), ProposerAddress: proposer}
	var resp *abci.ResponsePrepareProposal
	var err error
	// (read under the model's lock: on the race build the handler of an abandoned call may still run)
	n.EL.Chain.mu.Lock()
	trouble, rejects, env := n.EL.Trouble, len(n.EL.GoatRejects), n.EL.EnvTrouble
	n.EL.Chain.mu.Unlock()
	out := n.run("prepare", func() { resp, err = n.App.PrepareProposal(req) })
	n.EL.Chain.mu.Lock()
	n.lastFaulted = anyUsed(faults) || n.EL.Trouble != trouble
	n.lastInjected = anyUsed(faults)
	n.lastEnvTrouble = n.EL.EnvTrouble != env
	n.lastGoatRejects = append([]string{}, n.EL.GoatRejects[rejects:]...)
	n.EL.Chain.mu.Unlock()
	n.EL.arm(nil)
	if resp == nil {
		return nil, out, err
	}
	return resp.Txs, out, err
}

func anyUsed(fs []*EngineFault) bool {
	for _, f := range fs {
		if f.used {
			return true
		}
	}
	return false
}

func (c *Cmt) processOn(n *Node, h int64, t time.Time, proposer []byte, txs [][]byte, hash []byte, ci abci.CommitInfo, faults []*EngineFault) (bool, CallOutcome, error) {
	n.EL.arm(faults)
	req := &abci.RequestProcessProposal{Txs: txs, ProposedLastCommit: ci, Hash: hash, Height: h, Time: t,
		NextValidatorsHash: c.NextVals.Hash(), ProposerAddress: proposer}
	var resp *abci.ResponseProcessProposal
	var err error
	out := n.run("process", func() { resp, err = n.App.ProcessProposal(req) })
	n.lastFaulted = anyUsed(faults)
	n.lastEngineTrouble = false
	n.EL.arm(nil)
	return resp != nil && resp.Status == abci.ResponseProcessProposal_ACCEPT, out, err
}

// produceBlock runs one height: rounds until a proposal is decided, then FinalizeBlock and
// Commit on every live replica, with the faults of args. Returns false if the height was not decided.
func (c *Cmt) produceBlock(args *BlockArgs) bool {
	w := c.w
	if c.Halted != "" {
		return false
	}
	// restarts
	for _, id := range args.Restart {
		if id < len(w.Nodes) && !w.Nodes[id].Alive {
			w.Nodes[id].start()
			w.fault("restart")
		}
	}
	for _, n := range w.Nodes {
		if !n.Alive && n.DownFor > 0 {
			n.DownFor--
			if n.DownFor == 0 {
				n.start()
				w.fault("restart")
			}
		}
	}
	if len(w.aliveNodes()) == 0 {
		for _, n := range w.Nodes {
			n.start()
			n.DownFor = 0
			w.fault("restart")
		}
	}
	for _, id := range args.ELRestart {
		if id < len(w.Nodes) {
			w.Nodes[id].EL.restart()
			w.fault("el-restart")
		}
	}
	for k, v := range args.SkewMs {
		var id int
		fmt.Sscanf(k, "%d", &id)
		if id < len(w.Nodes) {
			w.Nodes[id].Env.ClockOffset = time.Duration(v) * time.Millisecond
			w.fault("clock-skew")
		}
	}
	for _, n := range w.Nodes {
		if n.Alive && n.Height < c.Height {
			c.catchUp(n)
		}
	}

	h := c.Height + 1
	dt := time.Duration(args.DtMs) * time.Millisecond
	if dt <= 0 {
		dt = w.Cfg.blockDur()
	}
	simrt.Advance(dt)
	t := c.Time.Add(dt)
	ci, eci := c.lastCommitInfo(args.Absent, 0)
	if len(args.Absent) > 0 {
		w.fault("absent-votes")
	}

	var misb []abci.Misbehavior
	for _, e := range args.Evidence {
		if len(c.Vals.Validators) == 0 {
			break
		}
		v := c.Vals.Validators[e.Val%len(c.Vals.Validators)]
		typ := abci.MisbehaviorType_DUPLICATE_VOTE
		if e.Light {
			typ = abci.MisbehaviorType_LIGHT_CLIENT_ATTACK
		}
		if e.Addr != "" {
			// evidence against a validator that signed at the evidence height but has left the set since
			addr := common.FromHex(e.Addr)
			if last, ok := c.Recent[string(addr)]; !ok || h-e.AgeBlocks > last {
				continue
			}
			v = &cmttypes.Validator{Address: addr, VotingPower: c.RecentPower[string(addr)]}
			w.probe("evidence-against-former-member")
		}
		misb = append(misb, abci.Misbehavior{Type: typ, Validator: abci.Validator{Address: v.Address, Power: v.VotingPower},
			Height: h - e.AgeBlocks, Time: t.Add(-time.Duration(e.AgeSec) * time.Second), TotalVotingPower: c.Vals.TotalVotingPower()})
		w.fault("evidence")
	}

	var decided *DecidedBlock
	for round := 0; round < maxRounds && decided == nil; round++ {
		w.Stats.Rounds++
		spec := RoundSpec{Kind: "honest"}
		if round < len(args.Rounds) {
			spec = args.Rounds[round]
		}
		pv := c.proposerFor(round)
		actor := c.valIndex(pv.Address)
		if round > 0 {
			simrt.Advance(500 * time.Millisecond)
			w.probe("multi-round-height")
		}
		if actor == nil || actor.Node < 0 || actor.Node >= len(w.Nodes) || !w.Nodes[actor.Node].Alive || w.Nodes[actor.Node].Height != c.Height {
			w.probe("proposer-without-replica")
			continue
		}
		pn := w.Nodes[actor.Node]
		if spec.Kind == "proposer-down" {
			w.fault("round/proposer-down")
			continue
		}
		for _, j := range spec.Junk {
			w.injectJunk(pn, j)
		}
		txs, out, err := c.prepareOn(pn, h, t, pv.Address, eci, toEngineFaults(pn.ID, spec.Faults))
		w.countEngineFaults(pn)
		if out.Panic != nil {
			w.violate("C19", "prepare-panic", "prepare", "PrepareProposal panicked on node %d: %v\n%s", pn.ID, out.Panic, out.Stack)
			continue
		}
		if out.Sched.Deadlock {
			pn.crash("engine stalled during PrepareProposal")
			pn.DownFor = 1
			w.fault("engine/stall-hang")
			continue
		}
		w.judgePrepareFailure(pn, h, t, txs, err, spec)
		if err != nil {
			continue
		}
		w.checkHonestProposalShape(pn, txs, pn.lastFaulted)
		if args.MultiSched > 0 && !pn.lastFaulted && len(spec.Faults) == 0 {
			w.multiSchedule(pn, h, t, pv.Address, eci, txs, args.MultiSched)
		}
		if spec.Kind == "crash-proposer" {
			pn.crash("proposer crashed after PrepareProposal")
			pn.DownFor = 1
			w.fault("crash/post-prepare")
			w.probe("round-abandoned-after-prepare")
			continue
		}
		if spec.Kind == "drop" {
			w.fault("round/proposal-lost")
			w.probe("round-abandoned-after-prepare")
			continue
		}
		honest := true
		if spec.Kind == "byz" {
			mtxs, ok := w.mutateProposal(pn, h, t, pv, txs, spec.Mut)
			if ok {
				txs = mtxs
				honest = false
				w.fault("byz-proposer/" + spec.Mut)
			}
		}
		hash := blockHashOf(h, round, t, pv.Address, txs, c.AppHash)
		accepts, rejects := 0, 0
		verdicts := map[int]bool{}
		faulted := pn.lastFaulted
		for _, n := range w.aliveNodes() {
			if n.Height != c.Height {
				continue
			}
			ok, pout, _ := c.processOn(n, h, t, pv.Address, txs, hash, ci, toEngineFaults(n.ID, spec.Faults))
			w.countEngineFaults(n)
			if pout.Panic != nil {
				w.violate("C19", "process-panic", "process", "ProcessProposal panicked on node %d (%s): %v\n%s", n.ID, spec.Mut, pout.Panic, pout.Stack)
				ok = false
			}
			if pout.Sched.Deadlock {
				n.crash("engine stalled during ProcessProposal")
				n.DownFor = 1
				w.fault("engine/stall-hang")
				continue
			}
			if n.lastFaulted {
				faulted = true
			}
			verdicts[n.ID] = ok
			if ok {
				accepts++
			} else {
				rejects++
			}
		}
		w.judgeVerdicts(pn, h, t, pv, txs, verdicts, honest, faulted, spec)
		if accepts == 0 || rejects > 0 {
			if honest && !faulted {
				w.probe("honest-proposal-rejected")
			}
			if spec.Forced && !honest {
				w.forceFinalize(pn, h, round, t, pv, txs, hash, ci, misb, spec.Mut)
			}
			continue
		}
		decided = &DecidedBlock{Height: h, Round: round, Time: t, Proposer: pv.Address, Txs: txs, Hash: hash, LastCommit: ci, Misbehavior: misb,
			NextValHash: c.NextVals.Hash(), Vals: c.Vals}
		decided.LastCommit.Round = int32(round)
		decided.Honest = honest && !faulted
		decided.WellBehaved = w.payloadWellBehaved(txs)
	}
	if decided == nil {
		w.probe("height-not-decided")
		c.Undecided++
		if c.Undecided >= 3 {
			c.Halted = "no proposer with a live replica at the tip for 3 block steps; set=" + c.describeSet()
		}
		return false
	}
	c.Undecided = 0
	c.Blocks[h] = decided
	b := decided

	crashAt := map[int]CrashSpec{}
	for _, cs := range args.Crashes {
		crashAt[cs.Node] = cs
	}
	executed := 0
	for _, n := range w.aliveNodes() {
		if n.Height != c.Height {
			continue
		}
		cs, hasCrash := crashAt[n.ID]
		if hasCrash && h == 1 && (cs.Point == "in-commit" || cs.Point == "disk-error") {
			// a torn commit of the very first version is outside what cosmos-sdk/iavl can recover
			// (iavl's LoadVersion(0) means "latest", so the half-written version 1 is loaded under
			// a root that still says 0); not a statement about GOAT, see DESIGN.md 2.3
			cs.Point = "post-finalize"
		}
		if hasCrash && cs.Point == "pre-finalize" {
			n.crash("crash before FinalizeBlock")
			n.DownFor = cs.Down
			w.fault("crash/pre-finalize")
			continue
		}
		resp, out, err := c.finalizeOn(n, b, toEngineFaults(n.ID, args.FinFaults))
		faulted := anyUsed(n.EL.FaultsSnapshot)
		w.countEngineFaults(n)
		n.lastFaulted = faulted
		if out.Sched.Deadlock {
			n.crash("engine stalled during FinalizeBlock")
			n.DownFor = 1
			w.fault("engine/stall-hang")
			continue
		}
		if out.Panic != nil || err != nil {
			if faulted {
				// C09: an engine fault while finalising aborts the block on this node; CometBFT halts,
				// the operator restarts, nothing of the block persists.
				w.fault("finalize-aborted-by-engine-fault")
				n.crash(fmt.Sprintf("FinalizeBlock failed under engine fault: %v %v", out.Panic, err))
				n.DownFor = 1
				w.checkNothingPersisted(n, b)
				continue
			}
			w.violate("C19", "finalize-fails", finalizeShape(out, err), "height %d node %d: FinalizeBlock failed without an engine fault: panic=%v err=%v\n%s", h, n.ID, out.Panic, err, out.Stack)
			// "the begin-/end-of-block logic never fails" is also part of C13 (locking) and C16 (relayer)
			txt := strings.ToLower(fmt.Sprint(out.Panic, err))
			// (a panic says little in its text; its stack names the module whose begin-/end-of-block code failed)
			inRelayer := strings.Contains(out.Stack, "/x/relayer/keeper.Keeper.EndBlocker") || strings.Contains(out.Stack, "/x/relayer/keeper.Keeper.BeginBlocker")
			inLocking := strings.Contains(out.Stack, "/x/locking/keeper.Keeper.EndBlocker") || strings.Contains(out.Stack, "/x/locking/keeper.Keeper.BeginBlocker")
			switch {
			case inRelayer || (!inLocking && (strings.Contains(txt, "voter") || strings.Contains(txt, "electproposer") || strings.Contains(txt, "relayer"))):
				w.violate("C16", "end-of-block-fails", finalizeShape(out, err), "height %d node %d: the relayer end-of-block logic failed: panic=%v err=%v", h, n.ID, out.Panic, err)
			case inLocking || strings.Contains(txt, "validator") || strings.Contains(txt, "power") || strings.Contains(txt, "locking") || strings.Contains(txt, "unlock"):
				w.violate("C13", "begin-or-end-of-block-fails", finalizeShape(out, err), "height %d node %d: the locking begin-/end-of-block logic failed: panic=%v err=%v", h, n.ID, out.Panic, err)
			}
			n.crash("FinalizeBlock failed")
			continue
		}
		if faulted {
			w.checkFinalizeUnderFault(n, b, resp)
		}
		c.compareExecution(n, b, resp)
		if args.Reexec == n.ID+1 {
			w.reexecute(n, b)
		}
		if args.ShadowDiff == n.ID+1 {
			w.shadowDiff(n, b, resp)
		}
		if hasCrash && cs.Point == "post-finalize" {
			n.crash("crash between FinalizeBlock and Commit")
			n.DownFor = cs.Down
			w.fault("crash/post-finalize")
			w.probe("crash-between-finalize-and-commit")
			continue
		}
		if hasCrash && cs.Point == "in-commit" {
			n.DB.arm(cs.Tear, 0)
		}
		if hasCrash && cs.Point == "disk-error" {
			n.DB.arm(0, cs.Tear)
		}
		ok := c.commitOn(n, b, resp)
		n.DB.disarm()
		if !ok {
			n.DownFor = cs.Down
			continue
		}
		executed++
		c.removeIncluded(n, b.Txs)
		if hasCrash && cs.Point == "post-commit" {
			n.crash("crash after Commit")
			n.DownFor = cs.Down
			w.fault("crash/post-commit")
		}
	}
	if b.Resp == nil {
		// no replica executed the block (all crashed or faulted): bring one back and replay
		for _, n := range w.Nodes {
			if !n.Alive {
				n.start()
				n.DownFor = 0
				w.fault("restart")
				c.Height = h // so that catchUp replays b
				c.catchUp(n)
				c.Height = h - 1
				if n.Alive && n.Height == h {
					break
				}
			}
		}
		if b.Resp == nil {
			c.Halted = fmt.Sprintf("no replica can execute decided block %d", h)
			delete(c.Blocks, h)
			return false
		}
	}
	c.Height = h
	c.Time = t
	c.AppHash = b.Resp.AppHash
	w.tr("block", fmt.Sprint(h), fbDigest(b.Resp), callsDigest(b.ELCalls))
	if traceFile != nil {
		if rn := w.refNode(); rn != nil {
			fmt.Fprintf(traceFile, "  stores %v\n  req time=%s absent=%v misb=%d proposer=%x\n", rn.moduleDigest(false), b.Time, args.Absent, len(b.Misbehavior), b.Proposer[:4])
		}
	}
	w.Stats.Heights++
	if w.refNode() == nil {
		// every replica that executed the block went down afterwards: bring one back so that the
		// oracles can observe the committed state of every height
		for _, n := range w.Nodes {
			if !n.Alive {
				n.start()
				n.DownFor = 0
				w.fault("restart")
				c.catchUp(n)
				if n.Alive && n.Height == h {
					break
				}
			}
		}
	}
	if !c.applyValidatorUpdates(b, b.Resp.ValidatorUpdates) {
		if c.Halted == "" {
			c.Halted = "validator updates of the last block are not acceptable to CometBFT"
		}
		return true
	}
	if u := b.Resp.ConsensusParamUpdates; u != nil {
		// the SDK echoes the genesis parameters at the initial height; anything else means
		// consensus-parameter administration took effect
		same := u.Block != nil && u.Evidence != nil && u.Validator != nil && c.Params.Block != nil && u.Block.Equal(c.Params.Block) && u.Evidence.Equal(c.Params.Evidence) && u.Validator.Equal(c.Params.Validator)
		if !same {
			w.violate("C10", "consensus-params-changed", "cp", "height %d: consensus parameter update emitted: %s", h, u)
		}
	}
	for _, n := range w.aliveNodes() {
		if n.Pool != nil {
			n.Pool.Junk = nil
		}
	}
	w.JunkVotes = 0
	w.afterBlock(b)
	for _, n := range w.aliveNodes() {
		if n.Height == h {
			c.recheck(n)
		}
	}
	return true
}

func finalizeShape(out CallOutcome, err error) string {
	if out.Panic != nil {
		return "panic"
	}
	if err != nil {
		// instance-specific hex (addresses, hashes) is not part of the shape
		s := hexRun.ReplaceAllString(err.Error(), "#")
		if len(s) > 60 {
			s = s[:60]
		}
		return s
	}
	return ""
}

func (w *World) countEngineFaults(n *Node) {
	for k, v := range n.EL.FaultsHit {
		w.Stats.Faults["engine/"+k] += v
		delete(n.EL.FaultsHit, k)
	}
}

var _ = bytes.Equal
var hexRun = regexp.MustCompile(`[0-9a-fA-F]{8,}`)

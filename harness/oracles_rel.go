package main

import (
	"bytes"
	"fmt"
	"strings"

	"github.com/btcsuite/btcd/wire"
	"time"

	sdk "github.com/cosmos/cosmos-sdk/types"
	authsigning "github.com/cosmos/cosmos-sdk/x/auth/signing"
	bitcointypes "github.com/goatnetwork/goat/x/bitcoin/types"
	goatmodtypes "github.com/goatnetwork/goat/x/goat/types"
	relayertypes "github.com/goatnetwork/goat/x/relayer/types"
)

type relModel struct {
	w *World
	// registrations accepted since the member was (re-)added
	Registered map[string]int64
}

func newRelModel(w *World) *relModel { return &relModel{w: w, Registered: map[string]int64{}} }

func (r *relModel) onboarding(s *Snap) []string {
	var out []string
	for a, v := range s.Voters {
		if v.Status == relayertypes.VOTER_STATUS_ON_BOARDING {
			out = append(out, a)
		}
	}
	return out
}

func (r *relModel) offboarding(s *Snap) []string {
	var out []string
	for a, v := range s.Voters {
		if v.Status == relayertypes.VOTER_STATUS_OFF_BOARDING {
			out = append(out, a)
		}
	}
	return out
}

func honestMethod(msg sdk.Msg) string {
	switch msg.(type) {
	case *bitcointypes.MsgNewBlockHashes:
		return "Bitcoin/NewBlocks"
	case *bitcointypes.MsgNewPubkey:
		return "Bitcoin/NewPubkey"
	case *bitcointypes.MsgProcessWithdrawal:
		return "Bitcoin/ProcessWithdrawal"
	case *bitcointypes.MsgReplaceWithdrawal:
		return "Bitcoin/ReplaceWithdrawal"
	case *bitcointypes.MsgNewConsolidation:
		return "Bitcoin/NewConsolidation"
	}
	return ""
}

func isRelayerModuleMsg(m sdk.Msg) bool {
	u := sdk.MsgTypeURL(m)
	return strings.HasPrefix(u, "/goat.bitcoin.") || strings.HasPrefix(u, "/goat.relayer.")
}

// oracleRelayer: C01 (quorum ground truth), C02 (single use), C16 (group shape, elections).
func (w *World) oracleRelayer(bi *BlockInfo) {
	m, b, cur, prev := w.M, bi.B, w.M.Cur, w.M.Prev
	rs := w.rel()
	w.PendingVoted, w.PendingHashes = 0, 0
	if prev == nil {
		// the first block is judged against the genesis group
		prev = w.genesisSnapLike(cur)
	}
	prel := prev.Relayer.Relayer
	n := len(prel.Voters)
	seq := prev.Relayer.Sequence
	acceptedVoted := 0
	failedVoted := 0
	anyRelayerOK := false
	btcTip := m.Btc.Tip          // voted bitcoin tip before each transaction (oracleBitcoin runs after this oracle)
	touched := map[uint64]bool{} // withdrawal ids named by earlier relayer transactions of this block
	var earlier []sdk.Msg
	for i, msgs := range bi.TxMsgs {
		if i >= len(bi.TxRes) || msgs == nil {
			continue
		}
		for _, em := range earlier {
			for _, id := range withdrawalIDsOf(em) {
				touched[id] = true
			}
			if _, isKey := em.(*bitcointypes.MsgNewPubkey); isKey {
				touched[^uint64(0)] = true // the relayer key may have rotated within this block
			}
		}
		earlier = msgs
		ok := bi.TxRes[i].Code == 0
		h := txHash(b.Txs[i])
		if ok {
			for _, mm := range msgs {
				if isRelayerModuleMsg(mm) {
					anyRelayerOK = true
				}
			}
			w.Stats.TxOK++
			if len(msgs) > 1 {
				w.probe("multi-message-transaction-accepted")
			}
		} else if i > 0 {
			if len(msgs) > 1 {
				w.probe("multi-message-transaction-failed")
			}
			w.Stats.TxFail++
		}
		for mi, mm := range msgs {
			vm, voted := votedMsg(mm)
			if !voted {
				if reg, isReg := mm.(*relayertypes.MsgNewVoterRequest); isReg && ok {
					w.checkRegistration(bi, reg, prev)
				} else if isReg && len(msgs) == 1 {
					w.checkRejectedRegistration(bi, i, reg, prev)
				}
				continue
			}
			w.Stats.OracleEvals["C01"]++
			truth := rs.Truth[h]
			if tm := rs.TruthMulti[h]; tm != nil {
				truth = nil
				if mi < len(tm) {
					truth = tm[mi]
				}
			}
			vote := vm.GetVote()
			if !ok {
				failedVoted++
				if truth != nil && truth.Honest && truth.Epoch == prel.Epoch && truth.Seq == seq && truth.Proposer == prel.Proposer {
					w.probe("honest-vote-rejected-in-context")
					if hm, isH := mm.(*bitcointypes.MsgNewBlockHashes); isH && hm.StartBlockNumber == btcTip+1 && truth.Variant == "" {
						w.violate("C01", "legit-proposal-rejected", "legit-rejected", "height %d tx %d: an honestly voted block-hash proposal (epoch %d seq %d, %d signers of %d+1) was rejected: %s", b.Height, i, truth.Epoch, truth.Seq, len(truth.Signers), n, bi.TxRes[i].Log)
					}
					if pm, isP := mm.(*bitcointypes.MsgProcessWithdrawal); isP && truth.Variant == "" && len(msgs) == 1 {
						w.checkRejectedProcessing(bi, i, pm, prev, touched)
					}
				}
				continue
			}
			acceptedVoted++
			w.probe("voted-proposal-accepted")
			if hm, isH := mm.(*bitcointypes.MsgNewBlockHashes); isH {
				btcTip = hm.StartBlockNumber + uint64(len(hm.BlockHash)) - 1
			}
			if truth == nil {
				w.violate("C01", "accepted-vote-of-unknown-origin", "unknown-origin", "height %d tx %d: a voted %T took effect but no actor produced this transaction", b.Height, i, mm)
				seq++
				continue
			}
			fail := func(shape, format string, args ...any) {
				w.violate("C01", "illegitimate-proposal-accepted", shape, "height %d tx %d (%T, variant %q): "+format, append([]any{b.Height, i, mm, truth.Variant}, args...)...)
			}
			if vm.GetProposer() != prel.Proposer {
				fail("not-proposer", "message proposer %s, current proposer %s", vm.GetProposer(), prel.Proposer)
			}
			// every marked position denotes a current voter
			want := map[string]bool{prel.Proposer: true}
			beyond := false
			for _, bit := range truth.Bits {
				if bit >= n {
					beyond = true
					continue
				}
				want[prel.Voters[bit]] = true
			}
			if beyond {
				fail("bit-beyond-voters", "bitmap marks positions %v but the group has %d voters", truth.Bits, n)
			}
			if len(truth.Bits)+1 < thresholdOf(n) {
				fail("below-threshold", "%d marked voters + proposer < threshold %d of %d+1", len(truth.Bits), thresholdOf(n), n)
			}
			got := map[string]int{}
			for _, s := range truth.Signers {
				got[s]++
			}
			for s := range want {
				if got[s] == 0 {
					fail("marked-but-unsigned", "%s is counted in the quorum but did not sign (signers %v)", s, truth.Signers)
				}
			}
			genuine := 0
			for s, c := range got {
				if !want[s] {
					fail("unmarked-signer", "%s signed but is not the proposer or a marked current voter", s)
				} else {
					genuine++
				}
				if c > 1 {
					fail("duplicate-signer", "%s signed %d times", s, c)
				}
			}
			if genuine < thresholdOf(n) && !beyond && len(truth.Bits)+1 >= thresholdOf(n) {
				fail("too-few-genuine", "%d genuine signers < threshold %d", genuine, thresholdOf(n))
			}
			// signed context = execution context
			switch {
			case truth.Chain != chainID:
				fail("other-chain", "signed for chain %q", truth.Chain)
			case truth.Epoch != prel.Epoch:
				fail("other-epoch", "signed for epoch %d, current %d", truth.Epoch, prel.Epoch)
			case truth.Seq != seq:
				fail("other-seq", "signed for sequence %d, current %d", truth.Seq, seq)
			case truth.Method != honestMethod(mm):
				fail("other-method", "signed for method %q, action is %q", truth.Method, honestMethod(mm))
			case truth.Proposer != prel.Proposer:
				fail("other-proposer", "signed for proposer %s, current %s", truth.Proposer, prel.Proposer)
			case truth.Payload != payloadDigest(mm):
				fail("other-payload", "signed for payload %s, executed %s", truth.Payload, payloadDigest(mm))
			}
			if vote != nil {
				// C02: a vote is single use
				w.Stats.OracleEvals["C02"]++
				key := hx(vote.Signature) + "/" + hx(vote.Voters)
				if at, dup := rs.AcceptedVotes[key]; dup {
					w.violate("C02", "vote-accepted-twice", "twice", "height %d tx %d: the vote accepted at height %d was accepted again (%T)", b.Height, i, at, mm)
				}
				rs.AcceptedVotes[key] = b.Height
			}
			seq++
		}
	}
	// C02: the sequence grows by exactly the number of accepted voted proposals; randao changes exactly then
	w.Stats.OracleEvals["C02"]++
	if cur.Relayer.Sequence != prev.Relayer.Sequence+uint64(acceptedVoted) {
		w.violate("C02", "sequence-mismatch", "sequence", "height %d: sequence %d -> %d with %d accepted voted proposals", b.Height, prev.Relayer.Sequence, cur.Relayer.Sequence, acceptedVoted)
	}
	if changed := !bytes.Equal(prev.Relayer.Randao, cur.Relayer.Randao); changed != (acceptedVoted > 0) {
		w.violate("C02", "randao-mismatch", "randao", "height %d: randomness accumulator changed=%v with %d accepted voted proposals", b.Height, changed, acceptedVoted)
	}

	// C02: the proposer-accepted flag is raised only by a relayer-module transaction that took
	// effect (an acceptance, or the first accepted message of the proposer); a rejected or failed
	// one leaves it as it was
	if crelx := cur.Relayer.Relayer; !prel.ProposerAccepted && crelx.ProposerAccepted && crelx.Epoch == prel.Epoch && !anyRelayerOK {
		w.violate("C02", "accepted-flag-raised-without-accepted-message", "accepted-flag", "height %d: the proposer-accepted flag went false -> true in epoch %d although no relayer or bridge transaction succeeded in this block", b.Height, prel.Epoch)
		if failedVoted > 0 {
			// C01: a voted proposal that did not take effect changes no state at all
			w.violate("C01", "rejected-proposal-changed-state", "accepted-flag", "height %d: %d voted proposals were rejected in this block and nothing else succeeded, yet the proposer-accepted flag went false -> true", b.Height, failedVoted)
		}
	}
	if crelx := cur.Relayer.Relayer; prel.ProposerAccepted && !crelx.ProposerAccepted && crelx.Epoch == prel.Epoch {
		w.violate("C02", "accepted-flag-dropped-without-election", "accepted-flag-dropped", "height %d: the proposer-accepted flag went true -> false within epoch %d", b.Height, prel.Epoch)
	}

	rs.EverProposer[prel.Proposer] = true
	// C16: elections and group shape
	w.Stats.OracleEvals["C16"]++
	crel := cur.Relayer.Relayer
	params := cur.Relayer.Params
	accepted := prel.ProposerAccepted || anyRelayerOK
	dur := b.Time.Sub(prel.LastElected)
	fires := dur >= params.ElectingPeriod || (!accepted && params.AcceptProposerTimeout != 0 && dur >= params.AcceptProposerTimeout)
	if fires {
		w.probe("election")
		if dur < params.ElectingPeriod {
			w.probe("election-by-accept-timeout")
		}
		if crel.Epoch != prel.Epoch+1 {
			w.violate("C16", "election-missed", "missed", "height %d (%s): %s since the last election (period %s, accept timeout %s, accepted=%v) but the epoch stayed %d", b.Height, b.Time.Format(time.RFC3339), dur, params.ElectingPeriod, params.AcceptProposerTimeout, accepted, crel.Epoch)
		}
		if !crel.LastElected.Equal(b.Time) && crel.Epoch == prel.Epoch+1 {
			w.violate("C16", "election-time", "time", "height %d: last-elected %s, block time %s", b.Height, crel.LastElected, b.Time)
		}
		if crel.Proposer != prel.Proposer {
			w.probe("proposer-changed-at-election")
		}
	} else if crel.Epoch != prel.Epoch {
		w.violate("C16", "untimely-election", "untimely", "height %d: epoch %d -> %d after only %s (period %s, accept timeout %s, accepted=%v)", b.Height, prel.Epoch, crel.Epoch, dur, params.ElectingPeriod, params.AcceptProposerTimeout, accepted)
	}
	if !fires && (crel.Proposer != prel.Proposer || strings.Join(crel.Voters, ",") != strings.Join(prel.Voters, ",")) {
		w.violate("C16", "group-changed-without-election", "no-election-change", "height %d: proposer/voters changed without an election", b.Height)
	}
	// shape
	if crel.Proposer == "" {
		w.violate("C16", "no-proposer", "no-proposer", "height %d: the group has no proposer", b.Height)
	}
	pv := cur.Voters[crel.Proposer]
	if pv == nil {
		w.violate("C16", "proposer-not-member", "proposer-record", "height %d: proposer %s has no member record", b.Height, crel.Proposer)
	} else if pv.Status != relayertypes.VOTER_STATUS_ACTIVATED && pv.Status != relayertypes.VOTER_STATUS_OFF_BOARDING {
		w.violate("C16", "proposer-status", "proposer-status", "height %d: proposer %s has status %s", b.Height, crel.Proposer, pv.Status)
	}
	seen := map[string]bool{}
	for _, v := range crel.Voters {
		if v == crel.Proposer {
			w.violate("C16", "proposer-among-voters", "proposer-listed", "height %d: proposer %s is listed among the voters", b.Height, v)
		}
		if seen[v] {
			w.violate("C16", "duplicate-voter", "duplicate", "height %d: voter %s listed twice", b.Height, v)
		}
		seen[v] = true
		rec := cur.Voters[v]
		if rec == nil {
			w.violate("C16", "voter-without-record", "voter-record", "height %d: voter %s has no member record", b.Height, v)
		} else if rec.Status != relayertypes.VOTER_STATUS_ACTIVATED && rec.Status != relayertypes.VOTER_STATUS_OFF_BOARDING {
			w.violate("C16", "voter-status", "voter-status", "height %d: listed voter %s has status %s", b.Height, v, rec.Status)
		}
	}
	// who may newly appear in the group: only members that were on-boarding before an election
	was := map[string]bool{prel.Proposer: true}
	for _, v := range prel.Voters {
		was[v] = true
	}
	for _, v := range append([]string{crel.Proposer}, crel.Voters...) {
		if was[v] {
			continue
		}
		w.probe("voter-joined")
		pr := prev.Voters[v]
		registeredNow := pr != nil && pr.Status == relayertypes.VOTER_STATUS_PENDING && m.Rel.Registered[v] == b.Height
		if !registeredNow && (pr == nil || pr.Status != relayertypes.VOTER_STATUS_ON_BOARDING) {
			st := "absent"
			if pr != nil {
				st = pr.Status.String()
			}
			w.violate("C16", "joined-without-registration", "joined-unregistered", "height %d: %s joined the group but was %s before this block", b.Height, v, st)
		}
		if m.Rel.Registered[v] == 0 {
			w.violate("C16", "joined-without-proof", "joined-no-proof", "height %d: %s joined the group without an accepted registration with genuine proofs", b.Height, v)
		}
	}
	// removals
	for v := range was {
		if v != crel.Proposer && !seen[v] {
			w.probe("voter-left")
			delete(m.Rel.Registered, v)
		}
	}
	// a registration is spent when the member's record goes away, whichever way it left (a member
	// whose address already had an account is queued for off-boarding at registration and never
	// appears in the voter list at all)
	for _, a := range sortedKeys(m.Rel.Registered) {
		if cur.Voters[a] == nil {
			delete(m.Rel.Registered, a)
			w.probe("registered-member-record-deleted")
		}
	}
	// activity within an epoch only by recorded members
	for a, v := range cur.Voters {
		if v.Status == relayertypes.VOTER_STATUS_ON_BOARDING && prev.Voters[a] != nil && prev.Voters[a].Status == relayertypes.VOTER_STATUS_PENDING && m.Rel.Registered[a] != b.Height {
			w.violate("C16", "boarded-without-proof", "boarded-no-proof", "height %d: %s became on-boarding without an accepted registration in this block", b.Height, a)
		}
	}
}

// withdrawalIDsOf: the withdrawal ids a relayer message names.
func withdrawalIDsOf(m sdk.Msg) []uint64 {
	switch t := m.(type) {
	case *bitcointypes.MsgProcessWithdrawal:
		return t.Id
	case *bitcointypes.MsgApproveCancellation:
		return t.Id
	}
	return nil
}

// checkRejectedProcessing: the completeness side of C05 / C17. An honestly built, honestly voted
// processing proposal that is executed in the context it was signed for, names only withdrawals
// that were pending before the block and that nothing else in the block touched, and satisfies
// every term by the reference checks (decoded script, amount, fee ceiling, change to the current
// key) must be accepted — otherwise a chain that refuses every payout would look sound.
func (w *World) checkRejectedProcessing(bi *BlockInfo, txi int, pm *bitcointypes.MsgProcessWithdrawal, prev *Snap, touched map[uint64]bool) {
	b := bi.B
	if prev == nil || prev.Wd == nil || len(pm.Id) == 0 || touched[^uint64(0)] || pm.Validate() != nil {
		return // (stateless validity - zero fee, sizes, id count - is not what is judged here)
	}
	named := map[uint64]bool{}
	if bi.MsgOK && bi.ReqErr == nil {
		for _, r := range bi.Bridge.ReplaceByFees {
			named[r.Id] = true
		}
		for _, c := range bi.Bridge.Cancel1s {
			named[c.Id] = true
		}
	}
	seen := map[uint64]bool{}
	for _, id := range pm.Id {
		pw := prev.Wd[id]
		if pw == nil || pw.Status != bitcointypes.WITHDRAWAL_STATUS_PENDING || named[id] || touched[id] || seen[id] {
			return
		}
		seen[id] = true
	}
	tx := new(wire.MsgTx)
	if err := tx.DeserializeNoWitness(bytes.NewReader(pm.NoWitnessTx)); err != nil {
		return
	}
	good := true
	fail := func(string, string, ...any) { good = false }
	// the payout is judged against the state before the block (statuses and ceilings did not move)
	saved := w.M.Cur
	w.M.Cur = prev
	w.checkPayoutOutputs(bi, txi, pm.Id, tx, pm.NoWitnessTx, pm.TxFee, fail, &candTx{}, "rejected-process")
	w.M.Cur = saved
	if !good {
		return
	}
	w.Stats.OracleEvals["C05"]++
	log := bi.TxRes[txi].Log
	w.violate("C05", "honest-processing-rejected", "process-rejected", "height %d tx %d: an honestly voted payout of pending withdrawals %v that meets every term was rejected: %s", b.Height, txi, pm.Id, log)
	if strings.Contains(log, "script") || strings.Contains(log, "address") {
		w.Stats.OracleEvals["C17"]++
		addrs := []string{}
		for _, id := range pm.Id {
			addrs = append(addrs, prev.Wd[id].Address)
		}
		w.violate("C17", "standard-address-not-payable", "script-refused", "height %d tx %d: the payout pays exactly the scripts of %v and was refused: %s", b.Height, txi, addrs, log)
	}
}

// genesisSnapLike builds the "previous" relayer view for block 1 from the genesis configuration.
func (w *World) genesisSnapLike(cur *Snap) *Snap {
	s := &Snap{Height: 0, Relayer: &relayertypes.GenesisState{Params: cur.Relayer.Params, Sequence: 0, Randao: sha([]byte("randao"), u64le(w.Seed))},
		Voters: map[string]*relayertypes.Voter{}, Locking: nil, Bitcoin: nil}
	rl := &relayertypes.Relayer{Proposer: w.Members[0].Addr(), Epoch: 0, LastElected: simEpochVal, ProposerAccepted: true}
	for i := 0; i <= w.Cfg.Voters && i < len(w.Members); i++ {
		mb := w.Members[i]
		if i > 0 {
			rl.Voters = append(rl.Voters, mb.Addr())
		}
		s.Voters[mb.Addr()] = &relayertypes.Voter{Address: mb.Tx.AccAddress(), VoteKey: mb.Vote.Pub, Status: relayertypes.VOTER_STATUS_ACTIVATED}
	}
	s.Relayer.Relayer = rl
	return s
}

// checkRegistration: an accepted NewVoter must carry genuine proofs for a pending member.
func (w *World) checkRegistration(bi *BlockInfo, reg *relayertypes.MsgNewVoterRequest, prev *Snap) {
	rs := w.rel()
	b := bi.B
	t := rs.RegTruth[txKeyOf(reg)]
	addr := sdk.AccAddress(btcHash160(reg.VoterTxKey)).String()
	w.probe("registration-accepted")
	if t == nil {
		w.violate("C16", "registration-of-unknown-origin", "reg-unknown", "height %d: a registration for %s was accepted that no actor produced", b.Height, addr)
		return
	}
	rec := prev.Voters[addr]
	if cr := w.M.Cur.Voters[addr]; rec == nil && cr != nil {
		// added by this very block's message and registered at once: the record no longer shows the
		// key hash it was added with
		c := *cr
		c.VoteKey = t.KeyHash
		rec = &c
	}
	if !t.genuineAt(prev.Relayer.Relayer, rec) || t.Member != addr {
		w.violate("C16", "forged-registration-accepted", "reg-forged-"+t.Variant, "height %d: registration variant %q for %s was accepted", b.Height, t.Variant, addr)
	}
	if at := w.M.Rel.Registered[addr]; at != 0 {
		w.violate("C16", "registration-accepted-twice", "reg-twice", "height %d: %s registered again (first at height %d) without having been re-added", b.Height, addr, at)
	}
	if pr := prev.Voters[addr]; pr == nil || pr.Status != relayertypes.VOTER_STATUS_PENDING {
		// it may have been added by this very block's message; only flag when it had another status
		if pr != nil {
			w.violate("C16", "registration-of-non-pending", "reg-status", "height %d: %s registered while %s", b.Height, addr, pr.Status)
		}
	}
	w.M.Rel.Registered[addr] = b.Height
}

// checkRejectedRegistration: a registration that is exactly what the honest procedure produces for
// the state it executes on, for a member awaiting registration, must be accepted (otherwise a
// check that refuses every newcomer would look sound).
func (w *World) checkRejectedRegistration(bi *BlockInfo, txi int, reg *relayertypes.MsgNewVoterRequest, prev *Snap) {
	t := w.rel().RegTruth[txKeyOf(reg)]
	r := bi.TxRes[txi]
	anteRefusal := r.Codespace == "sdk" && !strings.Contains(r.Log, "failed to execute message") &&
		(r.Code == 2 || r.Code == 4 || r.Code == 8 || r.Code == 12 || r.Code == 21 || r.Code == 30 || r.Code == 32)
	if t == nil || anteRefusal {
		return
	}
	rec := prev.Voters[t.Member]
	if rec == nil || rec.Status != relayertypes.VOTER_STATUS_PENDING || !t.genuineAt(prev.Relayer.Relayer, rec) {
		return
	}
	if w.M.Rel.Registered[t.Member] == bi.B.Height {
		return // registered by an earlier transaction of this block (a resubmission)
	}
	w.probe("honest-registration-rejected-in-context")
	w.violate("C16", "legit-registration-rejected", "reg-rejected", "height %d tx %d: the genuine registration of pending member %s (epoch %d) was rejected: %s", bi.B.Height, txi, t.Member, t.Epoch, r.Log)
}

func (w *World) finalRelayerChecks() {}

// ---------------------------------------------------------------------------------------------
// C10: admission

// admissible evaluates the statement's conjunction for a decoded transaction against the
// relayer proposer the deciding state has.
func (w *World) admissible(tx sdk.Tx, proposer string, height int64, inBlock bool, first bool) (ok bool, why string) {
	// bytes that decode to a transaction without body or auth info (e.g. zero bytes) make the SDK's
	// accessors panic: such a thing is not an admissible transaction
	defer func() {
		if r := recover(); r != nil {
			ok, why = false, "malformed transaction (no body / auth info)"
		}
	}()
	return w.admissibleInner(tx, proposer, height, inBlock, first)
}

func (w *World) admissibleInner(tx sdk.Tx, proposer string, height int64, inBlock bool, first bool) (bool, string) {
	if w.decodedBad[tx] {
		return false, "signature does not verify"
	}
	st, ok := tx.(interface {
		sdk.TxWithMemo
		sdk.TxWithTimeoutHeight
		authsigning.SigVerifiableTx
	})
	if !ok {
		return false, "not a standard tx"
	}
	if st.GetMemo() != "" {
		return false, "memo"
	}
	signers, err := st.GetSigners()
	if err != nil || len(signers) != 1 {
		return false, "signer count"
	}
	if th := st.GetTimeoutHeight(); th > 0 && uint64(height) > th {
		return false, "expired"
	}
	msgs := tx.GetMsgs()
	if len(msgs) == 0 {
		return false, "no messages"
	}
	for _, mm := range msgs {
		if _, isBlock := mm.(*goatmodtypes.MsgNewEthBlock); isBlock {
			if !inBlock {
				return false, "block message outside a block"
			}
			if st.GetTimeoutHeight() != uint64(height) {
				return false, "block message timeout height"
			}
			continue
		}
		if !isRelayerModuleMsg(mm) {
			return false, "foreign message " + sdk.MsgTypeURL(mm)
		}
		if sdk.AccAddress(signers[0]).String() != proposer {
			return false, "signer is not the relayer proposer"
		}
	}
	return true, ""
}

// checkAdmission judges a CheckTx outcome (mempool admission).
func (w *World) checkAdmission(st *SentTx, outcome string) {
	w.Stats.OracleEvals["C10"]++
	if outcome != "admitted" || w.view() == nil {
		return
	}
	tx, err := w.decodeTx(st.Raw)
	if err != nil {
		w.violate("C10", "undecodable-admitted", "undecodable", "an undecodable transaction was admitted to the mempool (%s)", st.Label)
		return
	}
	// CheckTx judges the timeout against the last committed height (the SDK's semantics)
	if ok, why := w.admissible(tx, w.view().Relayer.Relayer.Proposer, w.Cmt.Height, false, false); !ok {
		w.violate("C10", "inadmissible-tx-in-mempool", why, "a transaction was admitted to the mempool although: %s (%s)", why, st.Label)
	}
}

// oracleAdmission judges every transaction that took effect in a finalised block.
func (w *World) oracleAdmission(bi *BlockInfo) {
	b, prev := bi.B, w.M.Prev
	proposer := w.Members[0].Addr()
	if prev != nil {
		proposer = prev.Relayer.Relayer.Proposer
	}
	for i, raw := range b.Txs {
		if i >= len(bi.TxRes) || bi.TxRes[i].Code != 0 {
			continue
		}
		w.Stats.OracleEvals["C10"]++
		tx, err := w.decodeTx(raw)
		if err != nil {
			w.violate("C10", "undecodable-executed", "undecodable", "height %d tx %d: an undecodable transaction has result code 0", b.Height, i)
			continue
		}
		if ok, why := w.admissible(tx, proposer, b.Height, true, i == 0); !ok {
			w.violate("C10", "inadmissible-tx-took-effect", why, "height %d tx %d (%s) took effect although: %s", b.Height, i, txSummary(w, raw), why)
		}
		for _, mm := range tx.GetMsgs() {
			if _, isBlock := mm.(*goatmodtypes.MsgNewEthBlock); isBlock && (i != 0 || len(tx.GetMsgs()) != 1) {
				w.violate("C10", "block-message-misplaced", "misplaced", "height %d tx %d: a block message took effect outside the first, single-message transaction", b.Height, i)
			}
		}
	}
}

var _ = fmt.Sprint

package main

import (
	"crypto/sha256"
	"encoding/binary"
	"encoding/hex"
	"fmt"
	"math/big"
	"sort"

	"github.com/btcsuite/btcd/btcec/v2"
	"github.com/btcsuite/btcd/btcec/v2/schnorr"
	cmtsecp "github.com/cometbft/cometbft/crypto/secp256k1"
	"github.com/cosmos/cosmos-sdk/crypto/keys/secp256k1"
	sdk "github.com/cosmos/cosmos-sdk/types"
	"github.com/ethereum/go-ethereum/common"
	goatcrypto "github.com/goatnetwork/goat/pkg/crypto"
	"github.com/goatnetwork/goat/verifsim/simrt"
	relayertypes "github.com/goatnetwork/goat/x/relayer/types"
	blst "github.com/supranational/blst/bindings/go"
)

type Rand = simrt.Rand

func stream(seed uint64, labels ...any) uint64 { return simrt.Stream(seed, labels...) }
func newRand(seed uint64, labels ...any) *Rand { return simrt.NewRand(simrt.Stream(seed, labels...)) }

func sha(parts ...[]byte) []byte {
	h := sha256.New()
	for _, p := range parts {
		h.Write(p)
	}
	return h.Sum(nil)
}

func dsha(b []byte) []byte {
	a := sha256.Sum256(b)
	c := sha256.Sum256(a[:])
	return c[:]
}

func u64le(v uint64) []byte {
	var b [8]byte
	binary.LittleEndian.PutUint64(b[:], v)
	return b[:]
}

func hx(b []byte) string { return hex.EncodeToString(b) }

func short(b []byte) string {
	if len(b) > 6 {
		return hex.EncodeToString(b[:6])
	}
	return hex.EncodeToString(b)
}

// SecpKey is a secp256k1 key usable as cosmos account key, CometBFT validator key and Bitcoin key.
type SecpKey struct {
	Priv *secp256k1.PrivKey
	Pub  []byte // 33-byte compressed
}

func newSecpKey(seed uint64, labels ...any) *SecpKey {
	for i := 0; ; i++ {
		raw := sha(u64le(stream(seed, append(labels, i)...)), []byte("secp"))
		var sc btcec.ModNScalar
		if overflow := sc.SetByteSlice(raw); overflow || sc.IsZero() {
			continue
		}
		k := &secp256k1.PrivKey{Key: raw}
		return &SecpKey{Priv: k, Pub: k.PubKey().Bytes()}
	}
}

func (k *SecpKey) AccAddress() sdk.AccAddress { return sdk.AccAddress(k.Priv.PubKey().Address()) }
func (k *SecpKey) Bech32() string             { return k.AccAddress().String() }
func (k *SecpKey) EthAddr() common.Address    { return common.BytesToAddress(k.Priv.PubKey().Address()) }
func (k *SecpKey) CmtPriv() cmtsecp.PrivKey   { return cmtsecp.PrivKey(k.Priv.Key) }
func (k *SecpKey) Uncompressed64() [64]byte {
	pk, err := btcec.ParsePubKey(k.Pub)
	if err != nil {
		panic(err)
	}
	var out [64]byte
	copy(out[:], pk.SerializeUncompressed()[1:])
	return out
}
func (k *SecpKey) BtcPriv() *btcec.PrivateKey {
	p, _ := btcec.PrivKeyFromBytes(k.Priv.Key)
	return p
}
func (k *SecpKey) SchnorrPub() []byte { return schnorr.SerializePubKey(k.BtcPriv().PubKey()) }

// BLSKey is a relayer vote key.
type BLSKey struct {
	SK  *goatcrypto.PrivateKey
	Pub []byte // 96-byte compressed G2
}

func newBLSKey(seed uint64, labels ...any) *BLSKey {
	ikm := sha(u64le(stream(seed, labels...)), []byte("bls"))
	sk := blst.KeyGenV3(ikm)
	return &BLSKey{SK: sk, Pub: new(goatcrypto.PublicKey).From(sk).Compress()}
}

func (k *BLSKey) Sign(msg []byte) []byte { return goatcrypto.Sign(k.SK, msg) }

func relayerPubKey(k *SecpKey, schnorrType bool) *relayertypes.PublicKey {
	if schnorrType {
		return &relayertypes.PublicKey{Key: &relayertypes.PublicKey_Schnorr{Schnorr: k.SchnorrPub()}}
	}
	return &relayertypes.PublicKey{Key: &relayertypes.PublicKey_Secp256K1{Secp256K1: k.Pub}}
}

func bigStr(b *big.Int) string {
	if b == nil {
		return "0"
	}
	return b.String()
}

func mustBig(s string) *big.Int {
	b, ok := new(big.Int).SetString(s, 10)
	if !ok {
		panic("bad big int " + s)
	}
	return b
}

func sortedKeys[V any](m map[string]V) []string {
	keys := make([]string, 0, len(m))
	for k := range m {
		keys = append(keys, k)
	}
	sort.Strings(keys)
	return keys
}

func sortedU64Keys[V any](m map[uint64]V) []uint64 {
	keys := make([]uint64, 0, len(m))
	for k := range m {
		keys = append(keys, k)
	}
	sort.Slice(keys, func(i, j int) bool { return keys[i] < keys[j] })
	return keys
}

func assert(cond bool, format string, args ...any) {
	if !cond {
		panic(harnessError{fmt.Sprintf(format, args...)})
	}
}

// harnessError marks trouble inside the simulator itself (exit status 2, never a violation).
type harnessError struct{ msg string }

func (h harnessError) Error() string { return "harness: " + h.msg }

func minInt(a, b int) int {
	if a < b {
		return a
	}
	return b
}

func pick[T any](r *Rand, xs []T) T { return xs[r.Intn(len(xs))] }

func cmtAddr(pub []byte) []byte { return cmtsecp.PubKey(pub).Address() }

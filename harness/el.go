package main

// elfake: a deterministic model of the execution layer (goat-geth) served over the real
// JSON-RPC codec. One shared ELChain holds the block tree and the contract model; every node
// has its own ELNode (what that geth instance has seen, its fork-choice pointers, its payload
// builds, its armed faults, its call log).

import (
	"context"
	"encoding/json"
	"errors"
	"fmt"
	"math/big"
	"sync"
	"time"

	"github.com/ethereum/go-ethereum/beacon/engine"
	"github.com/ethereum/go-ethereum/common"
	"github.com/ethereum/go-ethereum/common/hexutil"
	ethtypes "github.com/ethereum/go-ethereum/core/types"
	"github.com/ethereum/go-ethereum/core/types/goattypes"
	"github.com/ethereum/go-ethereum/params"
	"github.com/ethereum/go-ethereum/rlp"
	"github.com/ethereum/go-ethereum/rpc"
	"github.com/ethereum/go-ethereum/trie"
	"github.com/goatnetwork/goat/verifsim/simrt"
)

// ---------------------------------------------------------------------------------------------
// user operations ("transactions" of EL users, opaque to the consensus layer)

type ELOp struct {
	ID     uint64   `json:"id"`
	Kind   string   `json:"k"`
	Addr   string   `json:"addr,omitempty"` // bitcoin address (withdraw)
	Val    string   `json:"val,omitempty"`  // validator address hex
	Token  string   `json:"tok,omitempty"`  // token address hex
	Rcpt   string   `json:"rcpt,omitempty"` // recipient hex
	Amount string   `json:"amt,omitempty"`  // decimal
	U1     uint64   `json:"u1,omitempty"`
	U2     uint64   `json:"u2,omitempty"`
	Pub    string   `json:"pub,omitempty"`  // 64-byte uncompressed pubkey hex (create)
	Hash   string   `json:"hash,omitempty"` // 32 byte hex (add voter: key hash)
	Raw    []string `json:"raw,omitempty"`  // raw request items, hex (adversarial EL)
	Fee    string   `json:"fee,omitempty"`  // gas fee paid to validators, decimal
	Guards bool     `json:"g"`              // contract guards on (well-behaved EL)

	attempts int // payload builds that included this operation without it becoming canonical
}

func (o *ELOp) amount() *big.Int {
	if o.Amount == "" {
		return new(big.Int)
	}
	return mustBig(o.Amount)
}

func (o *ELOp) encode() []byte {
	b, _ := json.Marshal(o)
	return append([]byte{0x7f}, b...)
}

func decodeOp(raw []byte) (*ELOp, error) {
	if len(raw) < 2 || raw[0] != 0x7f {
		return nil, errors.New("not a user op")
	}
	o := new(ELOp)
	if err := json.Unmarshal(raw[1:], o); err != nil {
		return nil, err
	}
	return o, nil
}

// ---------------------------------------------------------------------------------------------
// contract model

type ELWithdrawal struct {
	ID       uint64
	Addr     string
	Amount   uint64
	MaxPrice uint64
	Status   string // pending | canceling | paid | refunded
}

type ELValidator struct {
	Locked map[string]*big.Int // token hex -> amount locked on the contract side (ignores slashing)
}

type ELToken struct {
	Weight    uint64
	Threshold *big.Int
}

type ELUnlock struct {
	ID        uint64
	Val       common.Address
	Token     common.Address
	Recipient common.Address
	Amount    *big.Int
	Completed bool
}

// ELState is the post-state of a block.
type ELState struct {
	Wd           map[uint64]*ELWithdrawal
	NextWd       uint64
	Credited     map[string]bool // txid:vout of deposits credited
	BridgeNonce  uint64
	LockingNonce uint64
	Vals         map[common.Address]*ELValidator
	Tokens       map[common.Address]*ELToken
	Unlocks      map[uint64]*ELUnlock
	NextUnlock   uint64
	NextClaim    uint64
	Claims       map[uint64]bool // claim id -> paid
	Voters       map[common.Address]bool
	BtcBlocks    int
	Anomalies    []string // goat txs the contracts would have refused
	Root         common.Hash
}

func newELState() *ELState {
	return &ELState{
		Wd: map[uint64]*ELWithdrawal{}, Credited: map[string]bool{}, Vals: map[common.Address]*ELValidator{},
		Tokens: map[common.Address]*ELToken{}, Unlocks: map[uint64]*ELUnlock{}, Claims: map[uint64]bool{}, Voters: map[common.Address]bool{},
	}
}

func (s *ELState) clone() *ELState {
	c := *s
	c.Wd = make(map[uint64]*ELWithdrawal, len(s.Wd))
	for k, v := range s.Wd {
		w := *v
		c.Wd[k] = &w
	}
	c.Credited = make(map[string]bool, len(s.Credited))
	for k, v := range s.Credited {
		c.Credited[k] = v
	}
	c.Vals = make(map[common.Address]*ELValidator, len(s.Vals))
	for k, v := range s.Vals {
		nv := &ELValidator{Locked: map[string]*big.Int{}}
		for t, a := range v.Locked {
			nv.Locked[t] = new(big.Int).Set(a)
		}
		c.Vals[k] = nv
	}
	c.Tokens = make(map[common.Address]*ELToken, len(s.Tokens))
	for k, v := range s.Tokens {
		c.Tokens[k] = &ELToken{Weight: v.Weight, Threshold: new(big.Int).Set(v.Threshold)}
	}
	c.Unlocks = make(map[uint64]*ELUnlock, len(s.Unlocks))
	for k, v := range s.Unlocks {
		u := *v
		c.Unlocks[k] = &u
	}
	c.Claims = make(map[uint64]bool, len(s.Claims))
	for k, v := range s.Claims {
		c.Claims[k] = v
	}
	c.Voters = make(map[common.Address]bool, len(s.Voters))
	for k, v := range s.Voters {
		c.Voters[k] = v
	}
	c.Anomalies = append([]string{}, s.Anomalies...)
	return &c
}

// GoatTxInfo is one decoded system transaction as the execution layer sees it.
type GoatTxInfo struct {
	Raw    []byte
	Module goattypes.Module
	Action goattypes.Action
	Nonce  uint64
	Tx     goattypes.Tx
}

func decodeGoatTx(raw []byte) (*GoatTxInfo, error) {
	if len(raw) < 2 || raw[0] != ethtypes.GoatTxType {
		return nil, errors.New("not a goat tx")
	}
	var g ethtypes.GoatTx
	if err := rlp.DecodeBytes(raw[1:], &g); err != nil {
		return nil, err
	}
	inner, err := goattypes.DecodeTx(g.Module, g.Action, g.Data)
	if err != nil {
		return nil, err
	}
	// round trip through the real transaction type as goat-geth does
	var tx ethtypes.Transaction
	if err := tx.UnmarshalBinary(raw); err != nil {
		return nil, err
	}
	return &GoatTxInfo{Raw: raw, Module: g.Module, Action: g.Action, Nonce: g.Nonce, Tx: inner}, nil
}

func (g *GoatTxInfo) String() string {
	switch t := g.Tx.(type) {
	case *goattypes.DepositTx:
		return fmt.Sprintf("deposit(n=%d %x:%d -> %x amt=%s tax=%s)", g.Nonce, t.Txid[:4], t.TxOut, t.Target[:4], t.Amount, t.Tax)
	case *goattypes.PaidTx:
		return fmt.Sprintf("paid(n=%d id=%s %x:%d amt=%s)", g.Nonce, t.Id, t.Txid[:4], t.TxOut, t.Amount)
	case *goattypes.Cancel2Tx:
		return fmt.Sprintf("cancel2(n=%d id=%s)", g.Nonce, t.Id)
	case *goattypes.NewBtcBlockTx:
		return fmt.Sprintf("btcblock(n=%d %x)", g.Nonce, t.Hash[:4])
	case *goattypes.CompleteUnlockTx:
		return fmt.Sprintf("unlock(n=%d id=%d amt=%s)", g.Nonce, t.Id, t.Amount)
	case *goattypes.DistributeRewardTx:
		return fmt.Sprintf("reward(n=%d id=%d goat=%s gas=%s)", g.Nonce, t.Id, t.Goat, t.GasReward)
	}
	return fmt.Sprintf("goattx(%d,%d,n=%d)", g.Module, g.Action, g.Nonce)
}

// applyGoatTx executes a system transaction against the contract model. A nonce mismatch is an
// error (goat-geth's state transition refuses the transaction, so the block cannot be built or
// is INVALID); anything the contracts would refuse is recorded as an anomaly.
func (s *ELState) applyGoatTx(g *GoatTxInfo) error {
	switch g.Module {
	case goattypes.BirdgeModule:
		if g.Nonce != s.BridgeNonce {
			return fmt.Errorf("bridge goat tx nonce %d, expected %d", g.Nonce, s.BridgeNonce)
		}
		s.BridgeNonce++
	case goattypes.LockingModule:
		if g.Nonce != s.LockingNonce {
			return fmt.Errorf("locking goat tx nonce %d, expected %d", g.Nonce, s.LockingNonce)
		}
		s.LockingNonce++
	default:
		return fmt.Errorf("unknown goat module %d", g.Module)
	}
	switch t := g.Tx.(type) {
	case *goattypes.DepositTx:
		key := fmt.Sprintf("%x:%d", t.Txid[:], t.TxOut)
		if s.Credited[key] {
			s.Anomalies = append(s.Anomalies, "deposit credited twice "+key)
		}
		s.Credited[key] = true
	case *goattypes.PaidTx:
		w := s.Wd[t.Id.Uint64()]
		if w == nil || !t.Id.IsUint64() {
			s.Anomalies = append(s.Anomalies, fmt.Sprintf("paid for unknown withdrawal %s", t.Id))
		} else if w.Status != "pending" && w.Status != "canceling" {
			s.Anomalies = append(s.Anomalies, fmt.Sprintf("paid for withdrawal %d in status %s", w.ID, w.Status))
		} else {
			w.Status = "paid"
		}
	case *goattypes.Cancel2Tx:
		w := s.Wd[t.Id.Uint64()]
		if w == nil || !t.Id.IsUint64() {
			s.Anomalies = append(s.Anomalies, fmt.Sprintf("refund for unknown withdrawal %s", t.Id))
		} else if w.Status != "pending" && w.Status != "canceling" {
			s.Anomalies = append(s.Anomalies, fmt.Sprintf("refund for withdrawal %d in status %s", w.ID, w.Status))
		} else {
			w.Status = "refunded"
		}
	case *goattypes.NewBtcBlockTx:
		s.BtcBlocks++
	case *goattypes.CompleteUnlockTx:
		u := s.Unlocks[t.Id]
		if u == nil {
			s.Anomalies = append(s.Anomalies, fmt.Sprintf("complete unlock for unknown id %d", t.Id))
		} else if u.Completed {
			s.Anomalies = append(s.Anomalies, fmt.Sprintf("unlock %d completed twice", t.Id))
		} else {
			u.Completed = true
		}
	case *goattypes.DistributeRewardTx:
		if paid, ok := s.Claims[t.Id]; !ok {
			s.Anomalies = append(s.Anomalies, fmt.Sprintf("reward for unknown claim %d", t.Id))
		} else if paid {
			s.Anomalies = append(s.Anomalies, fmt.Sprintf("claim %d paid twice", t.Id))
		} else {
			s.Claims[t.Id] = true
		}
	}
	return nil
}

type reqAcc struct {
	L   goattypes.LockingRequests
	B   goattypes.BridgeRequests
	R   goattypes.RelayerRequests
	Raw [][]byte
}

func (a *reqAcc) encode() [][]byte {
	var out [][]byte
	out = append(out, a.L.Encode()...)
	out = append(out, a.B.Encode()...)
	out = append(out, a.R.Encode()...)
	out = append(out, a.Raw...)
	return out
}

// applyOp executes a user operation; with guards on, an operation the contracts would revert
// produces no request (returns false).
func (s *ELState) applyOp(o *ELOp, acc *reqAcc) bool {
	g := o.Guards
	switch o.Kind {
	case "withdraw":
		if g && o.U1 == 0 {
			return false
		}
		id := s.NextWd
		s.NextWd++
		s.Wd[id] = &ELWithdrawal{ID: id, Addr: o.Addr, Amount: o.U1, MaxPrice: o.U2, Status: "pending"}
		acc.B.Withdraws = append(acc.B.Withdraws, &goattypes.WithdrawalRequest{Id: id, Amount: o.U1, TxPrice: o.U2, Address: o.Addr})
	case "rbf":
		w := s.Wd[o.U1]
		if g && (w == nil || w.Status != "pending") {
			return false
		}
		if w != nil {
			w.MaxPrice = o.U2
		}
		acc.B.ReplaceByFees = append(acc.B.ReplaceByFees, &goattypes.ReplaceByFeeRequest{Id: o.U1, TxPrice: o.U2})
	case "cancel1":
		w := s.Wd[o.U1]
		if g && (w == nil || w.Status != "pending") {
			return false
		}
		if w != nil && w.Status == "pending" {
			w.Status = "canceling"
		}
		acc.B.Cancel1s = append(acc.B.Cancel1s, &goattypes.Cancel1Request{Id: o.U1})
	case "tax":
		acc.B.DepositTax = append(acc.B.DepositTax, &goattypes.DepositTaxRequest{Rate: o.U1, Max: o.U2})
	case "confirm":
		acc.B.Confirmation = append(acc.B.Confirmation, &goattypes.ConfirmationNumberRequest{Number: o.U1})
	case "mindeposit":
		acc.B.MinDeposit = append(acc.B.MinDeposit, &goattypes.MinDepositRequest{Satoshi: o.U1})
	case "create":
		val := common.HexToAddress(o.Val)
		if g && s.Vals[val] != nil {
			return false
		}
		var pub [64]byte
		copy(pub[:], common.FromHex(o.Pub))
		if s.Vals[val] == nil {
			s.Vals[val] = &ELValidator{Locked: map[string]*big.Int{}}
		}
		acc.L.Creates = append(acc.L.Creates, &goattypes.CreateRequest{Validator: val, Pubkey: pub})
	case "lock":
		val, tok := common.HexToAddress(o.Val), common.HexToAddress(o.Token)
		if g && (s.Vals[val] == nil || s.Tokens[tok] == nil || o.amount().Sign() == 0) {
			return false
		}
		if v := s.Vals[val]; v != nil {
			cur := v.Locked[o.Token]
			if cur == nil {
				cur = new(big.Int)
			}
			v.Locked[o.Token] = new(big.Int).Add(cur, o.amount())
		}
		acc.L.Locks = append(acc.L.Locks, &goattypes.LockRequest{Validator: val, Token: tok, Amount: o.amount()})
	case "unlock":
		val, tok := common.HexToAddress(o.Val), common.HexToAddress(o.Token)
		v := s.Vals[val]
		if g {
			if v == nil || s.Tokens[tok] == nil || o.amount().Sign() == 0 {
				return false
			}
			cur := v.Locked[o.Token]
			if cur == nil || cur.Cmp(o.amount()) < 0 {
				return false
			}
		}
		if v != nil && v.Locked[o.Token] != nil {
			nv := new(big.Int).Sub(v.Locked[o.Token], o.amount())
			if nv.Sign() < 0 {
				nv.SetInt64(0)
			}
			v.Locked[o.Token] = nv
		}
		id := s.NextUnlock
		s.NextUnlock++
		s.Unlocks[id] = &ELUnlock{ID: id, Val: val, Token: tok, Recipient: common.HexToAddress(o.Rcpt), Amount: o.amount()}
		acc.L.Unlocks = append(acc.L.Unlocks, &goattypes.UnlockRequest{Id: id, Validator: val, Recipient: common.HexToAddress(o.Rcpt), Token: tok, Amount: o.amount()})
	case "claim":
		val := common.HexToAddress(o.Val)
		if g && s.Vals[val] == nil {
			return false
		}
		id := s.NextClaim
		s.NextClaim++
		s.Claims[id] = false
		acc.L.Claims = append(acc.L.Claims, &goattypes.ClaimRequest{Id: id, Validator: val, Recipient: common.HexToAddress(o.Rcpt)})
	case "grant":
		acc.L.Grants = append(acc.L.Grants, &goattypes.GrantRequest{Amount: o.amount()})
	case "weight":
		tok := common.HexToAddress(o.Token)
		if t := s.Tokens[tok]; t == nil {
			s.Tokens[tok] = &ELToken{Weight: o.U1, Threshold: new(big.Int)}
		} else {
			t.Weight = o.U1
		}
		acc.L.UpdateWeights = append(acc.L.UpdateWeights, &goattypes.UpdateTokenWeightRequest{Token: tok, Weight: o.U1})
	case "threshold":
		tok := common.HexToAddress(o.Token)
		if g && s.Tokens[tok] == nil {
			return false
		}
		if t := s.Tokens[tok]; t != nil {
			t.Threshold = o.amount()
		}
		acc.L.UpdateThresholds = append(acc.L.UpdateThresholds, &goattypes.UpdateTokenThresholdRequest{Token: tok, Threshold: o.amount()})
	case "addvoter":
		v := common.HexToAddress(o.Val)
		if g && s.Voters[v] {
			return false
		}
		s.Voters[v] = true
		acc.R.Adds = append(acc.R.Adds, &goattypes.AddVoterRequest{Voter: v, Pubkey: common.HexToHash(o.Hash)})
	case "rmvoter":
		v := common.HexToAddress(o.Val)
		if g && !s.Voters[v] {
			return false
		}
		delete(s.Voters, v)
		acc.R.Removes = append(acc.R.Removes, &goattypes.RemoveVoterRequest{Voter: v})
	case "raw":
		for _, r := range o.Raw {
			raw := common.FromHex(r)
			acc.Raw = append(acc.Raw, raw)
			// a raw request that happens to decode as bridge traffic is, for the contract model, a
			// withdrawal the contract recorded (otherwise the consensus layer's answer to it would
			// look like an answer to nothing)
			if br, _, _, err := goattypes.DecodeRequests([][]byte{raw}); err == nil {
				for _, wr := range br.Withdraws {
					if s.Wd[wr.Id] == nil {
						s.Wd[wr.Id] = &ELWithdrawal{ID: wr.Id, Addr: wr.Address, Amount: wr.Amount, MaxPrice: wr.TxPrice, Status: "pending"}
					}
				}
				for _, c := range br.Cancel1s {
					if w := s.Wd[c.Id]; w != nil && w.Status == "pending" {
						w.Status = "canceling"
					}
				}
				for _, c := range br.ReplaceByFees {
					if w := s.Wd[c.Id]; w != nil {
						w.MaxPrice = c.TxPrice
					}
				}
			}
		}
	case "noop":
	default:
		return false
	}
	return true
}

// ---------------------------------------------------------------------------------------------
// blocks

type ELBlock struct {
	Hash         common.Hash
	Parent       common.Hash
	Number       uint64
	Timestamp    uint64
	FeeRecipient common.Address
	Random       common.Hash
	BeaconRoot   common.Hash
	Extra        []byte
	Txs          [][]byte
	NGoat        int
	Requests     [][]byte
	State        *ELState
	Canon        bool // some node made it its head: peers can fetch it
	GoatTxs      []*GoatTxInfo
	Ops          []*ELOp
	Gas          *big.Int
}

var (
	elGasLimit = uint64(30_000_000)
	elBaseFee  = big.NewInt(1_000_000_000)
)

func goatExtra(goatTxs [][]byte) []byte {
	txs := make(ethtypes.Transactions, 0, len(goatTxs))
	for _, raw := range goatTxs {
		var tx ethtypes.Transaction
		if err := tx.UnmarshalBinary(raw); err != nil {
			// cannot happen for decoded goat txs; keep the root well defined anyway
			continue
		}
		txs = append(txs, &tx)
	}
	extra := make([]byte, 0, params.GoatHeaderExtraLengthV0)
	extra = append(extra, uint8(len(goatTxs)))
	extra = append(extra, ethtypes.DeriveSha(txs, trie.NewStackTrie(nil)).Bytes()...)
	return extra
}

func elBlockHash(b *ELBlock, stateRoot common.Hash) common.Hash {
	parts := [][]byte{b.Parent[:], u64le(b.Number), u64le(b.Timestamp), b.FeeRecipient[:], b.Random[:], b.BeaconRoot[:], b.Extra, stateRoot[:]}
	for _, t := range b.Txs {
		parts = append(parts, u64le(uint64(len(t))), t)
	}
	parts = append(parts, []byte("reqs"))
	for _, r := range b.Requests {
		parts = append(parts, u64le(uint64(len(r))), r)
	}
	return common.BytesToHash(sha(parts...))
}

func (b *ELBlock) executable() *engine.ExecutableData {
	zero := uint64(0)
	zero2 := uint64(0)
	txs := b.Txs
	if txs == nil {
		txs = [][]byte{}
	}
	return &engine.ExecutableData{
		ParentHash: b.Parent, FeeRecipient: b.FeeRecipient, StateRoot: b.State.Root,
		ReceiptsRoot: common.BytesToHash(sha([]byte("receipts"), b.State.Root[:])), LogsBloom: make([]byte, 256),
		Random: b.Random, Number: b.Number, GasLimit: elGasLimit, GasUsed: uint64(21000 * len(b.Ops)), Timestamp: b.Timestamp,
		ExtraData: b.Extra, BaseFeePerGas: new(big.Int).Set(elBaseFee), BlockHash: b.Hash, Transactions: txs,
		Withdrawals: []*ethtypes.Withdrawal{}, BlobGasUsed: &zero, ExcessBlobGas: &zero2,
	}
}

// ELChain is the shared model: block tree, pending user operations.
type ELChain struct {
	mu      sync.Mutex // handlers of abandoned calls may still run in free mode (race build)
	Blocks  map[common.Hash]*ELBlock
	Genesis *ELBlock
	Pool    []*ELOp
	NextOp  uint64
	MaxOps  int
	// Byzantine payload tampering for the next build by a given node (see cmt.go): called on the
	// goat tx list before the payload is assembled.
	Tamper map[int]func(goatTxs [][]byte) (txs [][]byte, nGoat int, keepRoot bool)
}

func newELChain(genesisState *ELState, ts uint64) *ELChain {
	g := &ELBlock{Number: 0, Timestamp: ts, State: genesisState, Gas: new(big.Int)}
	g.Extra = goatExtra(nil)
	genesisState.Root = common.BytesToHash(sha([]byte("genesis-state")))
	g.Hash = elBlockHash(g, genesisState.Root)
	return &ELChain{Blocks: map[common.Hash]*ELBlock{g.Hash: g}, Genesis: g, MaxOps: 12, Tamper: map[int]func([][]byte) ([][]byte, int, bool){}}
}

func (c *ELChain) addOp(o *ELOp) *ELOp {
	o.ID = c.NextOp
	c.NextOp++
	c.Pool = append(c.Pool, o)
	return o
}

func (c *ELChain) dropFromPool(b *ELBlock) {
	if len(b.Ops) == 0 {
		return
	}
	inc := map[uint64]bool{}
	for _, o := range b.Ops {
		inc[o.ID] = true
	}
	out := c.Pool[:0]
	for _, o := range c.Pool {
		if !inc[o.ID] {
			out = append(out, o)
		}
	}
	c.Pool = out
}

// execute derives the post state and the requests of a block body on top of parent.
func (c *ELChain) execute(parent *ELBlock, number uint64, txs [][]byte, nGoat int) (*ELState, [][]byte, []*GoatTxInfo, []*ELOp, *big.Int, error) {
	st := parent.State.clone()
	var gts []*GoatTxInfo
	var ops []*ELOp
	gas := new(big.Int)
	acc := &reqAcc{}
	for i, raw := range txs {
		if i < nGoat {
			g, err := decodeGoatTx(raw)
			if err != nil {
				return nil, nil, nil, nil, nil, fmt.Errorf("transaction %d should be goat tx: %w", i, err)
			}
			if err := st.applyGoatTx(g); err != nil {
				return nil, nil, nil, nil, nil, err
			}
			gts = append(gts, g)
			continue
		}
		if len(raw) > 0 && raw[0] == ethtypes.GoatTxType {
			return nil, nil, nil, nil, nil, fmt.Errorf("transaction %d should not be goat tx", i)
		}
		o, err := decodeOp(raw)
		if err != nil {
			return nil, nil, nil, nil, nil, fmt.Errorf("transaction %d undecodable: %w", i, err)
		}
		st.applyOp(o, acc)
		ops = append(ops, o)
		if o.Fee != "" {
			gas.Add(gas, mustBig(o.Fee))
		}
	}
	acc.L.Gas = append([]*goattypes.GasRequest{goattypes.NewGasRequest(number, gas)}, acc.L.Gas...)
	reqs := acc.encode()
	parts := [][]byte{parent.State.Root[:]}
	for _, t := range txs {
		parts = append(parts, u64le(uint64(len(t))), t)
	}
	st.Root = common.BytesToHash(sha(parts...))
	return st, reqs, gts, ops, gas, nil
}

func (c *ELChain) build(parent *ELBlock, attrs *engine.PayloadAttributes, tamper func([][]byte) ([][]byte, int, bool)) (*ELBlock, error) {
	if attrs.Timestamp <= parent.Timestamp {
		return nil, fmt.Errorf("invalid timestamp, parent %d given %d", parent.Timestamp, attrs.Timestamp)
	}
	goat := attrs.GoatTxs
	nGoat := len(goat)
	txs := append([][]byte{}, goat...)
	extraFrom := goat
	if tamper != nil {
		var keepRoot bool
		txs, nGoat, keepRoot = tamper(goat)
		if !keepRoot {
			extraFrom = txs[:nGoat]
		}
	}
	n := 0
	keep := c.Pool[:0]
	for _, o := range c.Pool {
		if o.attempts >= 3 {
			continue // evicted: it was in three payloads none of which became canonical
		}
		keep = append(keep, o)
	}
	c.Pool = keep
	for _, o := range c.Pool {
		if n >= c.MaxOps {
			break
		}
		o.attempts++
		txs = append(txs, o.encode())
		n++
	}
	b := &ELBlock{Parent: parent.Hash, Number: parent.Number + 1, Timestamp: attrs.Timestamp, FeeRecipient: attrs.SuggestedFeeRecipient,
		Random: attrs.Random, Txs: txs, NGoat: nGoat}
	if attrs.BeaconRoot != nil {
		b.BeaconRoot = *attrs.BeaconRoot
	}
	b.Extra = goatExtra(extraFrom)
	if tamper != nil && nGoat != len(extraFrom) {
		b.Extra[0] = uint8(nGoat)
	}
	st, reqs, gts, ops, gas, err := c.execute(parent, b.Number, txs, nGoat)
	if err != nil {
		return nil, err
	}
	b.State, b.Requests, b.GoatTxs, b.Ops, b.Gas = st, reqs, gts, ops, gas
	b.Hash = elBlockHash(b, st.Root)
	return b, nil
}

// validate re-derives a block from an engine payload the way goat-geth's newPayload does.
func (c *ELChain) validate(parent *ELBlock, data *engine.ExecutableData, beaconRoot *common.Hash, requests [][]byte) (*ELBlock, error) {
	if data.Number != parent.Number+1 {
		return nil, fmt.Errorf("invalid block number: have %d want %d", data.Number, parent.Number+1)
	}
	if data.Timestamp <= parent.Timestamp {
		return nil, errors.New("invalid timestamp")
	}
	if len(data.ExtraData) != params.GoatHeaderExtraLengthV0 {
		return nil, errors.New("no goat tx root found")
	}
	if data.BlobGasUsed != nil && *data.BlobGasUsed != 0 {
		return nil, errors.New("blob gas used in goat block")
	}
	if len(data.Withdrawals) > 0 {
		return nil, errors.New("withdrawals not allowed for goat-geth")
	}
	nGoat := int(data.ExtraData[0])
	if len(data.Transactions) < nGoat {
		return nil, fmt.Errorf("txs length(%d) is less than goat tx length %d", len(data.Transactions), nGoat)
	}
	if want := goatExtra(data.Transactions[:nGoat]); string(want) != string(data.ExtraData) {
		return nil, errors.New("goat tx root hash mismatch")
	}
	b := &ELBlock{Parent: data.ParentHash, Number: data.Number, Timestamp: data.Timestamp, FeeRecipient: data.FeeRecipient,
		Random: data.Random, Extra: data.ExtraData, Txs: data.Transactions, NGoat: nGoat, Requests: requests}
	if beaconRoot != nil {
		b.BeaconRoot = *beaconRoot
	}
	st, reqs, gts, ops, gas, err := c.execute(parent, b.Number, b.Txs, nGoat)
	if err != nil {
		return nil, err
	}
	if len(reqs) != len(requests) {
		return nil, errors.New("invalid requests hash")
	}
	for i := range reqs {
		if string(reqs[i]) != string(requests[i]) {
			return nil, errors.New("invalid requests hash")
		}
	}
	if st.Root != data.StateRoot {
		return nil, errors.New("invalid merkle root")
	}
	b.State, b.GoatTxs, b.Ops, b.Gas = st, gts, ops, gas
	if h := elBlockHash(b, st.Root); h != data.BlockHash {
		return nil, fmt.Errorf("blockhash mismatch, want %x, got %x", data.BlockHash, h)
	}
	b.Hash = data.BlockHash
	return b, nil
}

// ---------------------------------------------------------------------------------------------
// per-node engine

type EngineFault struct {
	Call string `json:"call"` // fcuBuild | getPayload | newPayload | fcuHead
	Kind string `json:"kind"` // error | timeout | invalid | syncing | accepted | nopayloadid | unknownpayload | stall | slow
	used bool
}

type EngineCall struct {
	Call   string
	Digest string
	Result string
	Fault  string
}

type ELNode struct {
	ID        int
	Chain     *ELChain
	Known     map[common.Hash]bool
	Head      common.Hash
	Safe      common.Hash
	Final     common.Hash
	Builds    map[engine.PayloadID]*ELBlock
	Faults    []*EngineFault
	Log       []EngineCall
	Byzantine bool
	rng       *Rand
	srv       *rpc.Server
	FaultsHit map[string]int
	buildSeq  uint64

	FaultsSnapshot []*EngineFault
	EnvTrouble     int      // of Trouble: the engine did not know the head/parent (SYNCING), or was asked for a timestamp not after the parent's, or was tampered with
	GoatRejects    []string // payload builds refused because of the system transactions the consensus layer supplied
	Trouble        int      // answers other than VALID that were not injected (syncing, build errors, invalid payloads)
}

func newELNode(id int, chain *ELChain, seed uint64) *ELNode {
	n := &ELNode{ID: id, Chain: chain, Known: map[common.Hash]bool{chain.Genesis.Hash: true}, Head: chain.Genesis.Hash,
		Builds: map[engine.PayloadID]*ELBlock{}, rng: newRand(seed, "el", id), FaultsHit: map[string]int{}}
	n.srv = rpc.NewServer()
	if err := n.srv.RegisterName("engine", &engineAPI{n}); err != nil {
		panic(err)
	}
	simrt.RegisterEndpoint(fmt.Sprintf("el%d", id), func() *rpc.Client { return rpc.DialInProc(n.srv) })
	return n
}

// restart models a goat-geth restart: payload builds and blocks that are not ancestors of the
// head are forgotten.
func (n *ELNode) restart() {
	n.Builds = map[engine.PayloadID]*ELBlock{}
	known := map[common.Hash]bool{}
	for h := n.Head; ; {
		known[h] = true
		b := n.Chain.Blocks[h]
		if b == nil || b.Number == 0 {
			break
		}
		h = b.Parent
	}
	n.Known = known
}

func (n *ELNode) arm(f []*EngineFault) {
	n.Chain.mu.Lock()
	n.Faults = f
	n.Chain.mu.Unlock()
}

// syncFromPeers models what a geth node does after it answered SYNCING: it fetches blocks that
// other nodes made canonical. Called before a block hash is looked up.
func (n *ELNode) syncFromPeers(h common.Hash) {
	for {
		b := n.Chain.Blocks[h]
		if b == nil || n.Known[h] || !b.Canon {
			return
		}
		n.Known[h] = true
		h = b.Parent
	}
}

func (n *ELNode) takeFault(call string) *EngineFault {
	n.Chain.mu.Lock()
	defer n.Chain.mu.Unlock()
	for _, f := range n.Faults {
		if !f.used && f.Call == call {
			f.used = true
			n.FaultsHit[call+"/"+f.Kind]++
			return f
		}
	}
	return nil
}

func (n *ELNode) record(call, digest, result string, f *EngineFault) {
	c := EngineCall{Call: call, Digest: digest, Result: result}
	if f != nil {
		c.Fault = f.Kind
	}
	n.Log = append(n.Log, c)
}

func (n *ELNode) latency(call string) time.Duration {
	switch call {
	case "getPayload":
		return time.Duration(1+n.rng.Intn(20)) * time.Millisecond
	case "newPayload":
		return time.Duration(1+n.rng.Intn(30)) * time.Millisecond
	}
	return time.Duration(1+n.rng.Intn(5)) * time.Millisecond
}

type engineAPI struct{ n *ELNode }

var errEngineFault = errors.New("engine: injected transport error")

func strp(s string) *string { return &s }

func (api *engineAPI) GetChainConfig(ctx context.Context) (*params.ChainConfig, error) {
	return params.AllGoatDebugChainConfig, nil
}

// serve wraps the common part of every handler: seam, latency, generic faults.
func (api *engineAPI) serve(call string) (h *simrt.Handler, f *EngineFault, err error) {
	n := api.n
	h = simrt.EnterHandler()
	if h.Aborted() {
		return h, nil, context.Canceled
	}
	f = n.takeFault(call)
	lat := n.latency(call)
	if f != nil {
		switch f.Kind {
		case "timeout":
			lat = 5 * time.Second
		case "slow":
			lat = 900 * time.Millisecond
		case "stall":
			if h.Stall() {
				return h, f, context.Canceled
			}
		}
	}
	if h.Sleep(lat) {
		return h, f, context.Canceled
	}
	if f != nil && f.Kind == "error" {
		h.Exit()
		return h, f, errEngineFault
	}
	return h, f, nil
}

func (api *engineAPI) ForkchoiceUpdatedV3(ctx context.Context, state engine.ForkchoiceStateV1, attrs *engine.PayloadAttributes) (engine.ForkChoiceResponse, error) {
	n := api.n
	call := "fcuHead"
	if attrs != nil {
		call = "fcuBuild"
	}
	h, f, err := api.serve(call)
	digest := fmt.Sprintf("head=%x safe=%x final=%x", state.HeadBlockHash[:6], state.SafeBlockHash[:6], state.FinalizedBlockHash[:6])
	if attrs != nil {
		digest += fmt.Sprintf(" ts=%d rcpt=%x goat=%d:%x", attrs.Timestamp, attrs.SuggestedFeeRecipient[:4], len(attrs.GoatTxs), sha(attrs.GoatTxs...)[:6])
	}
	if err != nil {
		if !h.Aborted() {
			n.record(call, digest, "error", f)
		}
		return engine.ForkChoiceResponse{}, err
	}
	defer h.Exit()
	n.Chain.mu.Lock()
	defer n.Chain.mu.Unlock()
	status := func(s string, verr *string) engine.ForkChoiceResponse {
		return engine.ForkChoiceResponse{PayloadStatus: engine.PayloadStatusV1{Status: s, ValidationError: verr}}
	}
	if f != nil {
		switch f.Kind {
		case "invalid":
			n.record(call, digest, "INVALID", f)
			return status(engine.INVALID, strp("injected")), nil
		case "invalid-noerr":
			// INVALID without a validationError (allowed by the engine API)
			n.record(call, digest, "INVALID", f)
			resp := status(engine.INVALID, nil)
			if n.rng.Chance(0.5) {
				resp.PayloadStatus.LatestValidHash = &state.SafeBlockHash
			}
			return resp, nil
		case "syncing":
			n.record(call, digest, "SYNCING", f)
			return status(engine.SYNCING, nil), nil
		case "accepted":
			n.record(call, digest, "ACCEPTED", f)
			return status(engine.ACCEPTED, nil), nil
		}
	}
	n.syncFromPeers(state.HeadBlockHash)
	head := n.Chain.Blocks[state.HeadBlockHash]
	if head == nil || !n.Known[state.HeadBlockHash] {
		n.Trouble++
		n.EnvTrouble++
		n.record(call, digest, "SYNCING", f)
		return status(engine.SYNCING, nil), nil
	}
	if attrs == nil {
		head.Canon = true
		n.Head, n.Safe, n.Final = state.HeadBlockHash, state.SafeBlockHash, state.FinalizedBlockHash
		n.Chain.dropFromPool(head)
		n.record(call, digest, "VALID", f)
		resp := status(engine.VALID, nil)
		resp.PayloadStatus.LatestValidHash = &state.HeadBlockHash
		return resp, nil
	}
	tampered := n.Chain.Tamper[n.ID] != nil
	blk, err := n.Chain.build(head, attrs, n.Chain.Tamper[n.ID])
	delete(n.Chain.Tamper, n.ID)
	if err != nil {
		n.Trouble++
		if !tampered && attrs.Timestamp > head.Timestamp {
			// the only other reason a build fails: a system transaction handed over by the consensus
			// layer does not decode or does not carry the next nonce of its module
			n.GoatRejects = append(n.GoatRejects, err.Error())
		} else {
			n.EnvTrouble++
		}
		n.record(call, digest, "builderror:"+err.Error(), f)
		return engine.ForkChoiceResponse{}, &rpcErr{code: -38003, msg: "Invalid payload attributes: " + err.Error()}
	}
	n.buildSeq++
	var id engine.PayloadID
	copy(id[:], sha(blk.Hash[:], u64le(n.buildSeq))[:8])
	n.Builds[id] = blk
	resp := status(engine.VALID, nil)
	resp.PayloadStatus.LatestValidHash = &state.HeadBlockHash
	if f != nil && f.Kind == "nopayloadid" {
		n.record(call, digest, "VALID/noid", f)
		return resp, nil
	}
	resp.PayloadID = &id
	n.record(call, digest, "VALID/"+id.String(), f)
	return resp, nil
}

type rpcErr struct {
	code int
	msg  string
}

func (e *rpcErr) Error() string  { return e.msg }
func (e *rpcErr) ErrorCode() int { return e.code }

func (api *engineAPI) GetPayloadV4(ctx context.Context, id engine.PayloadID) (*engine.ExecutionPayloadEnvelope, error) {
	n := api.n
	h, f, err := api.serve("getPayload")
	digest := id.String()
	if err != nil {
		if !h.Aborted() {
			n.record("getPayload", digest, "error", f)
		}
		return nil, err
	}
	defer h.Exit()
	n.Chain.mu.Lock()
	defer n.Chain.mu.Unlock()
	blk := n.Builds[id]
	if blk == nil || (f != nil && f.Kind == "unknownpayload") {
		n.record("getPayload", digest, "unknown", f)
		return nil, &rpcErr{code: -38001, msg: "Unknown payload"}
	}
	n.Chain.Blocks[blk.Hash] = blk
	n.Known[blk.Hash] = true
	n.record("getPayload", digest, fmt.Sprintf("block %d %x", blk.Number, blk.Hash[:6]), f)
	return &engine.ExecutionPayloadEnvelope{ExecutionPayload: blk.executable(), BlockValue: new(big.Int).Set(blk.Gas), Requests: blk.Requests,
		BlobsBundle: &engine.BlobsBundleV1{Commitments: []hexutil.Bytes{}, Proofs: []hexutil.Bytes{}, Blobs: []hexutil.Bytes{}}}, nil
}

func (api *engineAPI) NewPayloadV4(ctx context.Context, data engine.ExecutableData, versionedHashes []common.Hash, beaconRoot *common.Hash, requests []hexutil.Bytes) (engine.PayloadStatusV1, error) {
	n := api.n
	h, f, err := api.serve("newPayload")
	digest := fmt.Sprintf("block %d %x parent %x", data.Number, data.BlockHash[:6], data.ParentHash[:6])
	if err != nil {
		if !h.Aborted() {
			n.record("newPayload", digest, "error", f)
		}
		return engine.PayloadStatusV1{}, err
	}
	defer h.Exit()
	n.Chain.mu.Lock()
	defer n.Chain.mu.Unlock()
	if f != nil {
		switch f.Kind {
		case "invalid":
			n.record("newPayload", digest, "INVALID", f)
			return engine.PayloadStatusV1{Status: engine.INVALID, ValidationError: strp("injected")}, nil
		case "invalid-noerr":
			n.record("newPayload", digest, "INVALID", f)
			return engine.PayloadStatusV1{Status: engine.INVALID, LatestValidHash: &data.ParentHash}, nil
		case "syncing":
			n.record("newPayload", digest, "SYNCING", f)
			return engine.PayloadStatusV1{Status: engine.SYNCING}, nil
		case "accepted":
			n.record("newPayload", digest, "ACCEPTED", f)
			return engine.PayloadStatusV1{Status: engine.ACCEPTED}, nil
		}
	}
	if requests == nil {
		return engine.PayloadStatusV1{}, &rpcErr{code: -32602, msg: "nil executionRequests post-prague"}
	}
	if beaconRoot == nil {
		return engine.PayloadStatusV1{}, &rpcErr{code: -32602, msg: "nil beaconRoot post-cancun"}
	}
	if versionedHashes == nil {
		return engine.PayloadStatusV1{}, &rpcErr{code: -32602, msg: "nil versionedHashes post-cancun"}
	}
	reqs := make([][]byte, len(requests))
	for i := range requests {
		reqs[i] = requests[i]
	}
	{
		// like ExecutableDataToBlock: the hash must be the hash of exactly this body
		probe := &ELBlock{Parent: data.ParentHash, Number: data.Number, Timestamp: data.Timestamp, FeeRecipient: data.FeeRecipient,
			Random: data.Random, Extra: data.ExtraData, Txs: data.Transactions, Requests: reqs, BeaconRoot: *beaconRoot}
		if h := elBlockHash(probe, data.StateRoot); h != data.BlockHash || (data.BlobGasUsed != nil && *data.BlobGasUsed != 0) {
			n.Trouble++
			n.record("newPayload", digest, "INVALID:blockhash mismatch", f)
			return engine.PayloadStatusV1{Status: engine.INVALID, ValidationError: strp("blockhash mismatch")}, nil
		}
	}
	if b := n.Chain.Blocks[data.BlockHash]; b != nil && n.Known[data.BlockHash] {
		n.record("newPayload", digest, "VALID(known)", f)
		return engine.PayloadStatusV1{Status: engine.VALID, LatestValidHash: &data.BlockHash}, nil
	}
	n.syncFromPeers(data.ParentHash)
	parent := n.Chain.Blocks[data.ParentHash]
	if parent == nil || !n.Known[data.ParentHash] {
		n.Trouble++
		n.EnvTrouble++
		n.record("newPayload", digest, "SYNCING(noparent)", f)
		return engine.PayloadStatusV1{Status: engine.SYNCING}, nil
	}
	blk, verr := n.Chain.validate(parent, &data, beaconRoot, reqs)
	if verr != nil {
		n.Trouble++
		n.record("newPayload", digest, "INVALID:"+verr.Error(), f)
		return engine.PayloadStatusV1{Status: engine.INVALID, LatestValidHash: &data.ParentHash, ValidationError: strp(verr.Error())}, nil
	}
	if old := n.Chain.Blocks[blk.Hash]; old == nil {
		n.Chain.Blocks[blk.Hash] = blk
	}
	n.Known[blk.Hash] = true
	n.record("newPayload", digest, "VALID", f)
	return engine.PayloadStatusV1{Status: engine.VALID, LatestValidHash: &data.BlockHash}, nil
}

package main

// cmtstub: drives heights and rounds the way CometBFT 0.38 does as far as the application can
// observe (see DESIGN.md §2.4). The validator set is the real cmttypes.ValidatorSet.

import (
	"bytes"
	"fmt"
	"sort"
	"strings"
	"time"

	abci "github.com/cometbft/cometbft/abci/types"
	cmtproto "github.com/cometbft/cometbft/proto/tendermint/types"
	cmttypes "github.com/cometbft/cometbft/types"
	"github.com/goatnetwork/goat/verifsim/simrt"
)

type DecidedBlock struct {
	Height      int64
	Round       int
	Time        time.Time
	Proposer    []byte
	Txs         [][]byte
	Hash        []byte
	LastCommit  abci.CommitInfo
	Misbehavior []abci.Misbehavior
	NextValHash []byte
	Resp        *abci.ResponseFinalizeBlock
	ELCalls     []EngineCall           // engine calls of the reference execution
	Vals        *cmttypes.ValidatorSet // the set this block was proposed under
	Honest      bool                   // built by an honest proposer without engine trouble
	WellBehaved bool                   // ... on a payload whose user operations all passed the contract guards
}

type Cmt struct {
	w           *World
	Height      int64
	AppHash     []byte
	Time        time.Time
	Params      *cmtproto.ConsensusParams
	Vals        *cmttypes.ValidatorSet // validators of height Height+1
	NextVals    *cmttypes.ValidatorSet // validators of height Height+2
	LastVals    *cmttypes.ValidatorSet // validators of height Height
	Blocks      map[int64]*DecidedBlock
	Halted      string
	Undecided   int
	Recent      map[string]int64 // validators that left the set: address -> last height they were in it
	RecentPower map[string]int64
	// validator updates accumulated from genesis, for C13
	AccPower map[string]int64
}

func newCmt(w *World, cp *cmtproto.ConsensusParams) *Cmt {
	return &Cmt{w: w, Params: cp, Blocks: map[int64]*DecidedBlock{}, Time: simrt.Epoch, AccPower: map[string]int64{}}
}

func (c *Cmt) headerFor(h int64) cmtproto.Header {
	t := c.Time
	if b := c.Blocks[h]; b != nil {
		t = b.Time
	}
	return cmtproto.Header{ChainID: chainID, Height: h, Time: t}
}

func (c *Cmt) initValidators(ups []abci.ValidatorUpdate) {
	vals, err := cmttypes.PB2TM.ValidatorUpdates(ups)
	if err != nil {
		panic(harnessError{"genesis validators: " + err.Error()})
	}
	if len(vals) == 0 {
		panic(harnessError{"InitChain returned no validators"})
	}
	vs := cmttypes.NewValidatorSet(vals)
	c.Vals = vs
	c.NextVals = vs.CopyIncrementProposerPriority(1)
	c.LastVals = cmttypes.NewValidatorSet(nil)
	for _, v := range vals {
		c.AccPower[string(v.Address)] = v.VotingPower
	}
}

func (c *Cmt) proposerFor(round int) *cmttypes.Validator {
	if round == 0 {
		return c.Vals.GetProposer()
	}
	return c.Vals.CopyIncrementProposerPriority(int32(round)).GetProposer()
}

// RoundSpec says what happens in one round before (or at) the deciding one.
type RoundSpec struct {
	Kind   string       `json:"kind"` // honest | proposer-down | drop | crash-proposer | byz
	Mut    string       `json:"mut,omitempty"`
	Forced bool         `json:"forced,omitempty"`
	Faults []*NodeFault `json:"faults,omitempty"`
	Junk   []string     `json:"junk,omitempty"`
}

type NodeFault struct {
	Node int    `json:"node"`
	Call string `json:"call"`
	Kind string `json:"kind"`
}

type CrashSpec struct {
	Node  int    `json:"node"`
	Point string `json:"point"` // pre-finalize | post-finalize | in-commit | post-commit
	Tear  int    `json:"tear,omitempty"`
	Down  int    `json:"down"` // block steps to stay down
}

type EvidenceSpec struct {
	Addr      string `json:"addr,omitempty"` // hex address of a validator that is not (any more) in the set; overrides Val
	Val       int    `json:"val"`            // index into the current validator set
	AgeBlocks int64  `json:"age_blocks"`
	AgeSec    int64  `json:"age_sec"`
	Light     bool   `json:"light,omitempty"`
}

type BlockArgs struct {
	DtMs       int64          `json:"dt_ms"`
	Absent     []int          `json:"absent,omitempty"` // indices into the set that signed the previous block
	Evidence   []EvidenceSpec `json:"evidence,omitempty"`
	Rounds     []RoundSpec    `json:"rounds,omitempty"`
	Crashes    []CrashSpec    `json:"crashes,omitempty"`
	FinFaults  []*NodeFault   `json:"fin_faults,omitempty"` // engine faults while finalising
	Restart    []int          `json:"restart,omitempty"`    // nodes to restart before this block
	ELRestart  []int          `json:"el_restart,omitempty"`
	SkewMs     map[string]int `json:"skew_ms,omitempty"`     // node -> new wall-clock offset
	Reexec     int            `json:"reexec,omitempty"`      // node+1 that executes the block a second time on a fork of its disk (C07)
	ShadowDiff int            `json:"shadow_diff,omitempty"` // node+1 on whose pre-block disk the block is executed with and without its failed transactions
	MultiSched int            `json:"multi_sched,omitempty"` // PrepareProposal is repeated under this many extra schedules and must give the same proposal
}

const maxRounds = 60

type proposal struct {
	Txs      [][]byte
	Proposer *cmttypes.Validator
	Round    int
	Node     *Node
}

func (c *Cmt) lastCommitInfo(absent []int, round int) (abci.CommitInfo, abci.ExtendedCommitInfo) {
	ci := abci.CommitInfo{Round: int32(round)}
	eci := abci.ExtendedCommitInfo{Round: int32(round)}
	if c.Height == 0 {
		return ci, eci
	}
	abs := map[int]bool{}
	for _, a := range absent {
		abs[a] = true
	}
	for i, v := range c.LastVals.Validators {
		flag := cmtproto.BlockIDFlagCommit
		if abs[i] {
			flag = cmtproto.BlockIDFlagAbsent
		}
		val := abci.Validator{Address: v.Address, Power: v.VotingPower}
		ci.Votes = append(ci.Votes, abci.VoteInfo{Validator: val, BlockIdFlag: flag})
		eci.Votes = append(eci.Votes, abci.ExtendedVoteInfo{Validator: val, BlockIdFlag: flag})
	}
	return ci, eci
}

func blockHashOf(h int64, round int, t time.Time, proposer []byte, txs [][]byte, appHash []byte) []byte {
	parts := [][]byte{u64le(uint64(h)), u64le(uint64(round)), u64le(uint64(t.UnixNano())), proposer, appHash}
	for _, tx := range txs {
		parts = append(parts, u64le(uint64(len(tx))), tx)
	}
	return sha(parts...)
}

// fbDigest is what C07 compares between executions of the same block.
func fbDigest(r *abci.ResponseFinalizeBlock) string {
	var sb strings.Builder
	fmt.Fprintf(&sb, "apphash=%x;", r.AppHash)
	for i, t := range r.TxResults {
		fmt.Fprintf(&sb, "tx%d=(%d,%s,%x,%d,%d);", i, t.Code, t.Codespace, t.Data, t.GasWanted, t.GasUsed)
	}
	var ups []string
	for _, u := range r.ValidatorUpdates {
		ups = append(ups, fmt.Sprintf("%x:%d", u.PubKey.GetSecp256K1(), u.Power))
	}
	sort.Strings(ups)
	fmt.Fprintf(&sb, "vals=%v;", ups)
	if r.ConsensusParamUpdates != nil {
		fmt.Fprintf(&sb, "cp=%s;", r.ConsensusParamUpdates.String())
	}
	return sb.String()
}

func callsDigest(calls []EngineCall) string {
	var sb strings.Builder
	for _, c := range calls {
		fmt.Fprintf(&sb, "%s(%s);", c.Call, c.Digest)
	}
	return sb.String()
}

// catchUp replays decided blocks the node has not executed (restart after a crash, lagging node).
func (c *Cmt) catchUp(n *Node) {
	for n.Alive && n.Height < c.Height {
		b := c.Blocks[n.Height+1]
		if b == nil {
			panic(harnessError{fmt.Sprintf("block %d missing from block store", n.Height+1)})
		}
		resp, out, err := c.finalizeOn(n, b, nil)
		if out.Panic != nil || err != nil || out.Sched.Deadlock {
			n.crash(fmt.Sprintf("replay of block %d failed: %v %v", b.Height, out.Panic, err))
			if b.Resp != nil {
				c.w.violate("C07", "replay-fails", "replay", "node %d: replay of decided block %d fails (%v %v) although it was executed before", n.ID, b.Height, out.Panic, err)
			}
			return
		}
		c.compareExecution(n, b, resp)
		if !c.commitOn(n, b, resp) {
			return
		}
	}
}

func (c *Cmt) finalizeReq(b *DecidedBlock) *abci.RequestFinalizeBlock {
	return &abci.RequestFinalizeBlock{Txs: b.Txs, DecidedLastCommit: b.LastCommit, Misbehavior: b.Misbehavior, Hash: b.Hash,
		Height: b.Height, Time: b.Time, NextValidatorsHash: b.NextValHash, ProposerAddress: b.Proposer}
}

func (c *Cmt) finalizeOn(n *Node, b *DecidedBlock, faults []*EngineFault) (*abci.ResponseFinalizeBlock, CallOutcome, error) {
	n.EL.arm(faults)
	start := len(n.EL.Log)
	var resp *abci.ResponseFinalizeBlock
	var err error
	out := n.run("finalize", func() { resp, err = n.App.FinalizeBlock(c.finalizeReq(b)) })
	n.lastCalls = append([]EngineCall{}, n.EL.Log[start:]...)
	n.EL.FaultsSnapshot = faults
	n.EL.arm(nil)
	return resp, out, err
}

// compareExecution is the C07 oracle: every execution of a block must agree with the reference.
func (c *Cmt) compareExecution(n *Node, b *DecidedBlock, resp *abci.ResponseFinalizeBlock) {
	w := c.w
	w.Stats.OracleEvals["C07"]++
	if b.Resp == nil {
		b.Resp = resp
		b.ELCalls = n.lastCalls
		return
	}
	if a, d := fbDigest(b.Resp), fbDigest(resp); a != d {
		w.violate("C07", "finalize-response-differs", diffShape(a, d), "height %d: node %d computed a different result than the reference execution\n ref: %s\n got: %s", b.Height, n.ID, a, d)
	}
	if a, d := callsDigest(b.ELCalls), callsDigest(n.lastCalls); a != d && !n.lastFaulted {
		w.violate("C07", "engine-calls-differ", "engine-calls", "height %d: node %d made different engine calls\n ref: %s\n got: %s", b.Height, n.ID, a, d)
	}
}

func diffShape(a, b string) string {
	pa, pb := strings.Split(a, ";"), strings.Split(b, ";")
	var kinds []string
	for i := 0; i < len(pa) && i < len(pb); i++ {
		if pa[i] != pb[i] {
			k := pa[i]
			if j := strings.Index(k, "="); j > 0 {
				k = k[:j]
			}
			if strings.HasPrefix(k, "tx") {
				// which field of the tx result differs
				fa, fb := strings.Split(pa[i], ","), strings.Split(pb[i], ",")
				for x := 0; x < len(fa) && x < len(fb); x++ {
					if fa[x] != fb[x] {
						k = fmt.Sprintf("tx.field%d", x)
						break
					}
				}
			}
			kinds = append(kinds, k)
		}
	}
	if len(kinds) > 3 {
		kinds = kinds[:3]
	}
	return strings.Join(kinds, "+")
}

func (c *Cmt) commitOn(n *Node, b *DecidedBlock, resp *abci.ResponseFinalizeBlock) bool {
	var err error
	out := n.run("commit", func() { _, err = n.App.Commit() })
	if out.Crashed {
		n.crash("torn commit at height " + fmt.Sprint(b.Height))
		c.w.fault("crash/in-commit")
		return false
	}
	if out.Panic != nil || err != nil {
		if n.DB.Fired == "write-error" {
			n.crash("disk write error in commit")
			c.w.fault("disk/write-error")
			return false
		}
		if msg := fmt.Sprint(out.Panic); strings.Contains(msg, "was already saved to different hash") {
			// the store holds a (partially written) version of this height from before a crash, and
			// re-executing the same block on the same committed state produced other content
			c.w.violate("C07", "re-execution-after-restart-differs", "commit-refused", "height %d node %d: the block was re-executed after a torn commit and produced different state: %s", b.Height, n.ID, msg)
			n.crash("store refuses the re-executed block")
			c.Halted = "a replica's store refuses the re-executed block"
			return false
		}
		panic(harnessError{fmt.Sprintf("Commit failed on node %d: %v %v\n%s", n.ID, out.Panic, err, out.Stack)})
	}
	n.Height = b.Height
	n.AppHash = resp.AppHash
	return true
}

// recheck emulates CometBFT's mempool recheck after a commit.
func (c *Cmt) recheck(n *Node) {
	if !n.Alive || len(n.CmtPool) == 0 {
		return
	}
	keep := n.CmtPool[:0]
	for _, tx := range n.CmtPool {
		var resp *abci.ResponseCheckTx
		var err error
		out := n.run("recheck", func() { resp, err = n.App.CheckTx(&abci.RequestCheckTx{Tx: tx, Type: abci.CheckTxType_Recheck}) })
		if out.Panic != nil {
			c.w.violate("C19", "checktx-panic", "recheck", "CheckTx(recheck) panicked on node %d: %v", n.ID, out.Panic)
			continue
		}
		if err == nil && resp != nil && resp.Code == 0 {
			keep = append(keep, tx)
			// C10, recheck mode: what stays in the mempool is still admissible for the new state
			if cur := c.w.view(); cur != nil && cur.Height == c.Height {
				c.w.Stats.OracleEvals["C10"]++
				if dtx, derr := c.w.decodeTx(tx); derr == nil {
					if ok, why := c.w.admissible(dtx, cur.Relayer.Relayer.Proposer, c.Height, false, false); !ok {
						c.w.violate("C10", "inadmissible-tx-kept-on-recheck", why, "height %d node %d: a mempool transaction (%s) passed the recheck although: %s", c.Height, n.ID, txSummary(c.w, tx), why)
					}
				}
			}
		}
	}
	n.CmtPool = keep
}

func (c *Cmt) removeIncluded(n *Node, txs [][]byte) {
	if len(n.CmtPool) == 0 {
		return
	}
	inc := map[string]bool{}
	for _, t := range txs {
		inc[string(t)] = true
	}
	keep := n.CmtPool[:0]
	for _, t := range n.CmtPool {
		if !inc[string(t)] {
			keep = append(keep, t)
		}
	}
	n.CmtPool = keep
}

// applyValidatorUpdates is what CometBFT does with the updates of block H: they take effect at H+2.
// The real ValidatorSet is the C13 oracle for acceptability.
func (c *Cmt) applyValidatorUpdates(b *DecidedBlock, ups []abci.ValidatorUpdate) bool {
	w := c.w
	w.Stats.OracleEvals["C13"]++
	for _, u := range ups {
		if u.Power < 0 {
			w.violate("C13", "negative-power-update", "negative", "height %d: validator update with negative power %d", b.Height, u.Power)
			return false
		}
		if u.PubKey.GetSecp256K1() == nil {
			w.violate("C13", "bad-key-type", "keytype", "height %d: validator update with a key type the consensus parameters do not allow", b.Height)
			return false
		}
	}
	tm, err := cmttypes.PB2TM.ValidatorUpdates(ups)
	if err != nil {
		w.violate("C13", "undecodable-update", "decode", "height %d: %v", b.Height, err)
		return false
	}
	next := c.NextVals.Copy()
	if len(tm) > 0 {
		if err := next.UpdateWithChangeSet(tm); err != nil {
			kind := "other"
			switch {
			case strings.Contains(err.Error(), "failed to find validator"):
				kind = "remove-nonmember"
			case strings.Contains(err.Error(), "duplicate"):
				kind = "duplicate"
			case strings.Contains(err.Error(), "total voting power"), strings.Contains(err.Error(), "overflow"):
				kind = "overflow"
			case strings.Contains(err.Error(), "empty set"):
				kind = "empty-set"
			}
			w.violate("C13", "update-rejected-by-cometbft", kind, "height %d: CometBFT's ValidatorSet refuses the reported updates: %v; updates=%s", b.Height, err, fmtUpdates(ups))
			c.Halted = "validator update rejected: " + err.Error()
			return false
		}
		for _, v := range tm {
			if v.VotingPower == 0 {
				delete(c.AccPower, string(v.Address))
			} else {
				c.AccPower[string(v.Address)] = v.VotingPower
			}
		}
	}
	next.IncrementProposerPriority(1)
	if c.Recent == nil {
		c.Recent, c.RecentPower = map[string]int64{}, map[string]int64{}
	}
	for _, v := range c.Vals.Validators {
		if !next.HasAddress(v.Address) {
			c.Recent[string(v.Address)] = b.Height + 1
			c.RecentPower[string(v.Address)] = v.VotingPower
		}
	}
	c.LastVals = c.Vals
	c.Vals = c.NextVals
	c.NextVals = next
	return true
}

func fmtUpdates(ups []abci.ValidatorUpdate) string {
	var s []string
	for _, u := range ups {
		s = append(s, fmt.Sprintf("%x..:%d", u.PubKey.GetSecp256K1()[:4], u.Power))
	}
	return strings.Join(s, ",")
}

func (c *Cmt) valIndex(addr []byte) *ValActor {
	for _, v := range c.w.Vals {
		if bytes.Equal(v.Key.CmtPriv().PubKey().Address(), addr) {
			return v
		}
	}
	return nil
}

func (c *Cmt) describeSet() string {
	var sb strings.Builder
	for _, v := range c.Vals.Validators {
		a := c.valIndex(v.Address)
		node := -2
		if a != nil {
			node = a.Node
		}
		alive := false
		if node >= 0 && node < len(c.w.Nodes) {
			alive = c.w.Nodes[node].Alive && c.w.Nodes[node].Height == c.Height
		}
		fmt.Fprintf(&sb, "%x:%d(node%d,live=%v) ", v.Address[:3], v.VotingPower, node, alive)
	}
	return sb.String()
}

package main

// Byzantine consensus proposer, arbitrary mempool content, forced finalisation on shadow
// replicas, re-execution on forks (C06, C07, C08, C09, C10, C19).

import (
	"bytes"
	"fmt"
	"strings"
	"time"

	abci "github.com/cometbft/cometbft/abci/types"
	cmttypes "github.com/cometbft/cometbft/types"
	sdk "github.com/cosmos/cosmos-sdk/types"
	signingtypes "github.com/cosmos/cosmos-sdk/types/tx/signing"
	authtypes "github.com/cosmos/cosmos-sdk/x/auth/types"
	consensustypes "github.com/cosmos/cosmos-sdk/x/consensus/types"
	"github.com/ethereum/go-ethereum/beacon/engine"
	"github.com/ethereum/go-ethereum/common"
	"github.com/ethereum/go-ethereum/core/types/goattypes"
	"github.com/goatnetwork/goat/verifsim/simrt"
	bitcointypes "github.com/goatnetwork/goat/x/bitcoin/types"
	goatmodtypes "github.com/goatnetwork/goat/x/goat/types"
	relayertypes "github.com/goatnetwork/goat/x/relayer/types"
)

var byzMutations = []string{"drop-first", "dup-first", "swap-first", "two-msgs", "second-block-msg", "with-relayer-msg", "other-author", "other-author-consistent", "fee-recipient", "fork-parent",
	"beacon-root", "blob-gas", "future-ts", "goat-omit-last", "goat-omit-all", "goat-dup", "goat-reorder", "goat-flip", "goat-count", "bad-sig", "timeout-height", "memo",
	"too-many", "garbage-first", "nil-payload", "foreign-msg-tx", "non-proposer-relayer-tx", "parent-field", "number-field", "extra-data-short", "field-length", "field-length", "block-msg-inside-relayer-tx", "content-under-same-hash", "content-under-same-hash"}

var junkKinds = []string{"stale-seq", "ex-proposer", "expired", "expired-by-one", "expired-by-one", "foreign", "block-msg", "valid-empty-vote", "valid-empty-vote", "valid-empty-vote", "bad-sig", "memo"}

func (w *World) valActorByAddr(addr []byte) *ValActor {
	return w.Cmt.valIndex(addr)
}

// blockTx signs a block-message transaction the way createEthBlockProposal does.
func (w *World) blockTx(n *Node, signer *SecpKey, msgs []sdk.Msg, h int64, mod func(*TxOpts)) ([]byte, error) {
	num, seq, ok := n.account(signer.AccAddress())
	if !ok {
		return nil, fmt.Errorf("no account")
	}
	o := TxOpts{Msgs: msgs, Signer: signer, AccNum: num, Seq: seq, TimeoutHeight: uint64(h), GasLimit: 1e8}
	if mod != nil {
		mod(&o)
	}
	return w.buildTx(o)
}

// rebuildPayload asks the (byzantine) proposer's own execution layer for a payload with other
// attributes, so that it is valid for the engine.
func (w *World) rebuildPayload(n *Node, parent *ELBlock, attrs *engine.PayloadAttributes, beaconForMsg []byte) (*goatmodtypes.ExecutionPayload, bool) {
	blk, err := w.EL.build(parent, attrs, w.EL.Tamper[n.ID])
	delete(w.EL.Tamper, n.ID)
	if err != nil {
		return nil, false
	}
	w.EL.Blocks[blk.Hash] = blk
	n.EL.Known[blk.Hash] = true
	return goatmodtypes.ExecutableDataToPayload(blk.executable(), beaconForMsg, blk.Requests), true
}

// mutateProposal applies one mutation to an honest proposal.
func (w *World) mutateProposal(n *Node, h int64, t time.Time, pv *cmttypes.Validator, txs [][]byte, mut string) ([][]byte, bool) {
	if len(txs) == 0 {
		return nil, false
	}
	tx0, err := w.decodeTx(txs[0])
	if err != nil || len(tx0.GetMsgs()) != 1 {
		return nil, false
	}
	msg, ok := tx0.GetMsgs()[0].(*goatmodtypes.MsgNewEthBlock)
	if !ok || msg.Payload == nil {
		return nil, false
	}
	actor := w.valActorByAddr(pv.Address)
	if actor == nil {
		return nil, false
	}
	r := newRand(w.Seed, "byz", h, mut)
	clone := func() *goatmodtypes.MsgNewEthBlock {
		c := protoCloneMsg(msg).(*goatmodtypes.MsgNewEthBlock)
		return c
	}
	rest := txs[1:]
	resign := func(m *goatmodtypes.MsgNewEthBlock, mod func(*TxOpts)) ([][]byte, bool) {
		raw, err := w.blockTx(n, actor.Key, []sdk.Msg{m}, h, mod)
		if err != nil {
			return nil, false
		}
		return append([][]byte{raw}, rest...), true
	}
	p := msg.Payload
	parent := w.EL.Blocks[common.BytesToHash(p.ParentHash)]
	nGoat := 0
	if len(p.ExtraData) > 0 {
		nGoat = int(p.ExtraData[0])
	}
	if nGoat > len(p.Transactions) {
		nGoat = len(p.Transactions)
	}
	beacon := common.BytesToHash(p.BeaconRoot)
	attrs := func() *engine.PayloadAttributes {
		return &engine.PayloadAttributes{Timestamp: p.Timestamp, Random: common.BytesToHash(p.PrevRandao), SuggestedFeeRecipient: common.BytesToAddress(p.FeeRecipient),
			BeaconRoot: &beacon, GoatTxs: append([][]byte{}, p.Transactions[:nGoat]...)}
	}
	switch mut {
	case "append-probe":
		if len(w.ProbeTxs) == 0 {
			return nil, false
		}
		out := append([][]byte{}, txs...)
		for _, p := range w.ProbeTxs {
			if len(out) >= 16 {
				break
			}
			out = append(out, p)
		}
		w.ProbeTxs = nil
		return out, true
	case "drop-first":
		return append([][]byte{}, rest...), true
	case "dup-first":
		return append([][]byte{txs[0], txs[0]}, rest...), true
	case "swap-first":
		if len(txs) < 2 {
			return nil, false
		}
		out := append([][]byte{}, txs...)
		out[0], out[1] = out[1], out[0]
		return out, true
	case "two-msgs":
		raw, err := w.blockTx(n, actor.Key, []sdk.Msg{clone(), clone()}, h, nil)
		if err != nil {
			return nil, false
		}
		return append([][]byte{raw}, rest...), true
	case "second-block-msg":
		raw, err := w.blockTx(n, actor.Key, []sdk.Msg{clone()}, h, func(o *TxOpts) { o.Seq++ })
		if err != nil {
			return nil, false
		}
		return append(append([][]byte{}, txs...), raw), true
	case "with-relayer-msg":
		extra := &relayertypes.MsgAcceptProposerRequest{Proposer: actor.Key.Bech32(), Epoch: 0}
		raw, err := w.blockTx(n, actor.Key, []sdk.Msg{clone(), extra}, h, nil)
		if err != nil {
			return nil, false
		}
		return append([][]byte{raw}, rest...), true
	case "other-author":
		var other *ValActor
		for _, v := range w.Vals {
			if v != actor {
				other = v
				break
			}
		}
		if other == nil {
			return nil, false
		}
		m := clone()
		m.Proposer = other.Key.Bech32()
		raw, err := w.blockTx(n, other.Key, []sdk.Msg{m}, h, nil)
		if err != nil {
			return nil, false
		}
		return append([][]byte{raw}, rest...), true
	case "other-author-consistent":
		// another validator's block: authored, signed and fee-collected by it, only it is not this
		// height's proposer
		var other *ValActor
		for _, v := range w.Vals {
			if v != actor {
				other = v
				break
			}
		}
		if other == nil || parent == nil {
			return nil, false
		}
		a := attrs()
		a.SuggestedFeeRecipient = other.Key.EthAddr()
		np, ok := w.rebuildPayload(n, parent, a, p.BeaconRoot)
		if !ok {
			return nil, false
		}
		m := clone()
		m.Payload = np
		m.Proposer = other.Key.Bech32()
		raw, err := w.blockTx(n, other.Key, []sdk.Msg{m}, h, nil)
		if err != nil {
			return nil, false
		}
		return append([][]byte{raw}, rest...), true
	case "fee-recipient":
		if parent == nil {
			return nil, false
		}
		a := attrs()
		a.SuggestedFeeRecipient = w.Users[r.Intn(len(w.Users))]
		np, ok := w.rebuildPayload(n, parent, a, p.BeaconRoot)
		if !ok {
			return nil, false
		}
		m := clone()
		m.Payload = np
		return resign(m, nil)
	case "fork-parent":
		if parent == nil || parent.Number == 0 {
			return nil, false
		}
		gp := w.EL.Blocks[parent.Parent]
		if gp == nil {
			return nil, false
		}
		a := attrs()
		a.GoatTxs = nil // nonces would not fit the older state
		np, ok := w.rebuildPayload(n, gp, a, p.BeaconRoot)
		if !ok {
			return nil, false
		}
		m := clone()
		m.Payload = np
		return resign(m, nil)
	case "beacon-root":
		if parent == nil {
			return nil, false
		}
		a := attrs()
		other := common.BytesToHash(sha(p.BeaconRoot, []byte("x")))
		a.BeaconRoot = &other
		np, ok := w.rebuildPayload(n, parent, a, other[:])
		if !ok {
			return nil, false
		}
		m := clone()
		m.Payload = np
		return resign(m, nil)
	case "blob-gas":
		m := clone()
		m.Payload.BlobGasUsed = 1 + uint64(r.Intn(1000))
		return resign(m, nil)
	case "future-ts":
		if parent == nil {
			return nil, false
		}
		a := attrs()
		a.Timestamp = uint64(simrt.Epoch.Add(simrt.GlobalNow()).Unix()) + 5 + uint64(r.Intn(600))
		if r.Chance(0.35) {
			// the far end of the range, where conversions to signed seconds or to time.Time wrap
			a.Timestamp = pick(r, []uint64{1<<63 - 2, 1<<63 - 1, 1 << 63, 1<<63 + 1, ^uint64(0), ^uint64(0) - 1, 1<<63 - 62135596800, 1<<63 - 62135596801, 1 << 62, 1 << 33})
		}
		np, ok := w.rebuildPayload(n, parent, a, p.BeaconRoot)
		if !ok {
			return nil, false
		}
		m := clone()
		m.Payload = np
		return resign(m, nil)
	case "goat-omit-last", "goat-omit-all", "goat-dup", "goat-reorder", "goat-flip", "goat-count":
		if parent == nil || nGoat == 0 {
			return nil, false
		}
		a := attrs()
		g := a.GoatTxs
		switch mut {
		case "goat-omit-last":
			a.GoatTxs = g[:len(g)-1]
		case "goat-omit-all":
			a.GoatTxs = nil
		case "goat-dup":
			a.GoatTxs = append(append([][]byte{}, g...), g[len(g)-1])
		case "goat-reorder":
			if len(g) < 2 {
				return nil, false
			}
			a.GoatTxs = append([][]byte{g[1], g[0]}, g[2:]...)
		case "goat-flip":
			c := append([]byte{}, g[0]...)
			c[len(c)-1] ^= 1
			a.GoatTxs = append([][]byte{c}, g[1:]...)
		case "goat-count":
			w.EL.Tamper[n.ID] = func(goat [][]byte) ([][]byte, int, bool) { return append([][]byte{}, goat...), len(goat) - 1, true }
		}
		np, ok := w.rebuildPayload(n, parent, a, p.BeaconRoot)
		if !ok {
			// the engine itself refuses to build it: mutate the message directly instead
			m := clone()
			switch mut {
			case "goat-dup":
				m.Payload.Transactions = append([][]byte{g[0]}, m.Payload.Transactions...)
			case "goat-reorder":
				m.Payload.Transactions[0], m.Payload.Transactions[1] = m.Payload.Transactions[1], m.Payload.Transactions[0]
			case "goat-flip":
				c := append([]byte{}, g[0]...)
				c[len(c)-1] ^= 1
				m.Payload.Transactions[0] = c
			default:
				return nil, false
			}
			return resign(m, nil)
		}
		m := clone()
		m.Payload = np
		return resign(m, nil)
	case "bad-sig":
		return resign(clone(), func(o *TxOpts) { o.BadSig = true })
	case "timeout-height":
		return resign(clone(), func(o *TxOpts) { o.TimeoutHeight = uint64(h + int64(pick(r, []int{-1, 1, 5}))) })
	case "memo":
		return resign(clone(), func(o *TxOpts) { o.Memo = "hello" })
	case "too-many":
		out := append([][]byte{}, txs...)
		for len(out) < 17 {
			out = append(out, out[len(out)-1])
		}
		return out, true
	case "garbage-first":
		return append([][]byte{r.Bytes(10 + r.Intn(300))}, rest...), true
	case "nil-payload":
		m := clone()
		m.Payload = nil
		return resign(m, nil)
	case "parent-field":
		m := clone()
		m.Payload.ParentHash = sha(m.Payload.ParentHash)
		return resign(m, nil)
	case "number-field":
		m := clone()
		m.Payload.BlockNumber += 1 + uint64(r.Intn(3))
		return resign(m, nil)
	case "field-length":
		// a hash / address field of non-canonical length: the conversion to the engine's types crops
		// from the left and pads on the left, so the engine sees the same block and says VALID,
		// while byte-wise comparisons against recorded state see another value
		m := clone()
		fields := map[string]*[]byte{"fee-recipient": &m.Payload.FeeRecipient, "parent-hash": &m.Payload.ParentHash, "block-hash": &m.Payload.BlockHash,
			"state-root": &m.Payload.StateRoot, "receipts-root": &m.Payload.ReceiptsRoot, "prev-randao": &m.Payload.PrevRandao, "beacon-root": &m.Payload.BeaconRoot}
		name := pick(r, []string{"fee-recipient", "fee-recipient", "parent-hash", "parent-hash", "block-hash", "block-hash", "state-root", "receipts-root", "prev-randao", "beacon-root"})
		f := fields[name]
		if len(*f) > 0 && (*f)[0] == 0 && r.Chance(0.5) {
			*f = append([]byte{}, (*f)[1:]...) // a leading zero byte dropped
		} else if r.Chance(0.45) {
			// shorter than canonical: the tail only, a single byte, or nothing at all
			keep := pick(r, []int{0, 1, len(*f) / 2, len(*f) - 1})
			if keep < 0 {
				keep = 0
			}
			*f = append([]byte{}, (*f)[len(*f)-keep:]...)
		} else {
			pad := r.Bytes(1 + r.Intn(12))
			if r.Chance(0.3) {
				pad = make([]byte, len(pad))
			}
			*f = append(pad, *f...)
		}
		w.probe("byz-field-length/" + name)
		return resign(m, nil)
	case "content-under-same-hash":
		// the payload names a block hash the verifiers may already know (this height's honest
		// payload, which they validated in an earlier round, or the committed head itself) but
		// carries other content: only asking the engine again can tell
		m := clone()
		if r.Chance(0.3) && parent != nil {
			m.Payload.BlockHash = append([]byte{}, m.Payload.ParentHash...)
		}
		switch r.Intn(3) {
		case 0:
			m.Payload.StateRoot = sha(m.Payload.StateRoot, []byte("other"))
		case 1:
			m.Payload.GasUsed += 21000
			m.Payload.ReceiptsRoot = sha(m.Payload.ReceiptsRoot, []byte("other"))
		default:
			m.Payload.Transactions = append(append([][]byte{}, m.Payload.Transactions...), append([]byte{0x02}, r.Bytes(60)...))
		}
		return resign(m, nil)
	case "extra-data-short":
		m := clone()
		m.Payload.ExtraData = m.Payload.ExtraData[:len(m.Payload.ExtraData)-1]
		return resign(m, nil)
	case "block-msg-inside-relayer-tx":
		// a later transaction, signed by the relayer proposer with this height as time-out, that
		// carries a relayer message first and a (second) block message after it
		cv := w.chainView()
		if cv == nil || cv.Proposer == nil {
			return nil, false
		}
		first := sdk.Msg(&relayertypes.MsgAcceptProposerRequest{Proposer: cv.Proposer.Addr(), Epoch: cv.Rel.Epoch})
		bm := clone()
		if r.Chance(0.5) {
			bm.Proposer = cv.Proposer.Addr()
		}
		msgs := []sdk.Msg{first, bm}
		if r.Chance(0.3) {
			msgs = []sdk.Msg{first, first, bm}
		}
		raw, err := w.proposerTx(cv.Proposer, msgs, TxOpts{TimeoutHeight: uint64(h)})
		if err != nil {
			return nil, false
		}
		return append(append([][]byte{}, txs...), raw), true
	case "foreign-msg-tx", "non-proposer-relayer-tx":
		cv := w.chainView()
		if cv == nil || cv.Proposer == nil {
			return nil, false
		}
		var raw []byte
		var err error
		if mut == "foreign-msg-tx" {
			fm := &authtypes.MsgUpdateParams{Authority: cv.Proposer.Addr(), Params: authtypes.DefaultParams()}
			raw, err = w.proposerTx(cv.Proposer, []sdk.Msg{fm}, TxOpts{})
		} else {
			var voter *RelMember
			for _, v := range cv.Voters {
				if v != nil {
					voter = v
				}
			}
			if voter == nil {
				return nil, false
			}
			raw, err = w.proposerTx(voter, []sdk.Msg{&relayertypes.MsgAcceptProposerRequest{Proposer: voter.Addr(), Epoch: cv.Rel.Epoch}}, TxOpts{})
		}
		if err != nil {
			return nil, false
		}
		return append(append([][]byte{}, txs...), raw), true
	}
	return nil, false
}

// proposalConditions evaluates the statement's conditions for accepting a proposal,
// independently of the application: from the proposal bytes, the head / beacon-root model, the
// owed ledger and the engine's knowledge of the block.
func (w *World) proposalConditions(verifier *Node, h int64, pv *cmttypes.Validator, txs [][]byte) (bool, string) {
	if len(txs) == 0 {
		return false, "no transactions"
	}
	if len(txs) > 16 {
		return false, "more than 16 transactions"
	}
	var blockMsgs int
	var first *goatmodtypes.MsgNewEthBlock
	for i, raw := range txs {
		tx, err := w.decodeTx(raw)
		if err != nil {
			return false, fmt.Sprintf("transaction %d undecodable", i)
		}
		for _, mm := range tx.GetMsgs() {
			if bm, ok := mm.(*goatmodtypes.MsgNewEthBlock); ok {
				blockMsgs++
				if i == 0 && len(tx.GetMsgs()) == 1 {
					first = bm
				}
			}
		}
	}
	// a block message anywhere but alone in the first transaction makes that transaction
	// inadmissible to a block (C10) as well as the proposal malformed (C08)
	for i, raw := range txs {
		tx, _ := w.decodeTx(raw)
		for _, mm := range tx.GetMsgs() {
			if _, ok := mm.(*goatmodtypes.MsgNewEthBlock); ok && (i != 0 || len(tx.GetMsgs()) != 1) && (i != 0 || blockMsgs == 1) {
				return false, fmt.Sprintf("transaction %d is not admissible: block message not first and alone in the block (%d block messages)", i, blockMsgs)
			}
		}
	}
	if blockMsgs != 1 || first == nil {
		return false, fmt.Sprintf("%d block messages, first-and-alone=%v", blockMsgs, first != nil)
	}
	proposerNow := w.Members[0].Addr()
	if cur := w.view(); cur != nil {
		proposerNow = cur.Relayer.Relayer.Proposer
	}
	for i, raw := range txs[1:] {
		tx, _ := w.decodeTx(raw)
		if ok, why := w.admissible(tx, proposerNow, h, true, false); !ok {
			return false, fmt.Sprintf("transaction %d is not admissible: %s", i+1, why)
		}
	}
	if ok, why := w.blockMessageConditions(h, pv, first); !ok {
		return false, why
	}
	if !verifier.EL.Known[common.BytesToHash(first.Payload.BlockHash)] {
		return false, "the verifier's engine has not validated this payload"
	}
	// not from the verifier's future (its clock can only have advanced since it gave its verdict)
	if now := simrt.Epoch.Add(simrt.GlobalNow() + verifier.Env.ClockOffset).Unix(); now >= 0 && first.Payload.Timestamp > uint64(now) {
		return false, "payload timestamp in the verifier's future"
	}
	return true, ""
}

// blockMessageConditions: the conditions of the statement that concern the block message itself.
func (w *World) blockMessageConditions(h int64, pv *cmttypes.Validator, first *goatmodtypes.MsgNewEthBlock) (bool, string) {
	m := w.M
	p := first.Payload
	if p == nil {
		return false, "nil payload"
	}
	author, err := sdkAccFromBech32(first.Proposer)
	if err != nil || !bytes.Equal(author, pv.Address) {
		return false, "not authored by the height's proposer"
	}
	if !bytes.Equal(p.FeeRecipient, pv.Address) {
		return false, "fee recipient is not the proposer"
	}
	if !bytes.Equal(p.ParentHash, m.Head[:]) || p.BlockNumber != m.HeadNumber+1 {
		return false, "does not extend the recorded head by one"
	}
	if !bytes.Equal(p.BeaconRoot, m.BeaconRoot) {
		return false, "wrong beacon root"
	}
	_, _, lreq, err := goattypes.DecodeRequests(p.Requests)
	if err != nil {
		return false, "undecodable requests"
	}
	if len(lreq.Gas) != 1 {
		return false, fmt.Sprintf("%d gas-revenue requests", len(lreq.Gas))
	}
	// exactly the due system transactions: each is the head of its owed queue, nonces consecutive,
	// and nothing that is due in this block's share is left out (checked against the node's own
	// view of the queues by the application; here: prefix consistency with the owed ledger)
	if len(p.ExtraData) != 33 {
		return false, "header extra is not 33 bytes"
	}
	nGoat := int(p.ExtraData[0])
	if nGoat > len(p.Transactions) {
		return false, "system tx count exceeds transactions"
	}
	heads := map[string]int{}
	bn, ln := m.BridgeNonce, m.LockingNonce
	for i := 0; i < nGoat; i++ {
		g, err := decodeGoatTx(p.Transactions[i])
		if err != nil {
			return false, fmt.Sprintf("system transaction %d undecodable", i)
		}
		switch g.Module {
		case goattypes.BirdgeModule:
			if g.Nonce != bn {
				return false, "system transaction nonce out of sequence"
			}
			bn++
		case goattypes.LockingModule:
			if g.Nonce != ln {
				return false, "system transaction nonce out of sequence"
			}
			ln++
		}
		kind, key := goatTxKey(g)
		q := m.Owed.Q[kind]
		if heads[kind] >= len(q) || q[heads[kind]].Key != key {
			return false, fmt.Sprintf("system transaction %d (%s) is not the next owed item of its kind", i, g)
		}
		heads[kind]++
	}
	for i := nGoat; i < len(p.Transactions); i++ {
		if len(p.Transactions[i]) > 0 && p.Transactions[i][0] == 0x60 {
			return false, "system transaction after the prefix"
		}
	}
	if nGoat == 0 && m.Owed.pending() > 0 {
		// something is owed and nothing is handed over: only acceptable if what is owed was created
		// by a block the verifier has not executed yet — never the case here (same committed state)
		for kind, q := range m.Owed.Q {
			if len(q) > 0 && q[0].Height < h {
				return false, "due system transactions omitted (" + kind + ")"
			}
		}
	}
	return true, ""
}

// judgeVerdicts: C08 completeness and soundness for one round.
func (w *World) judgeVerdicts(pn *Node, h int64, t time.Time, pv *cmttypes.Validator, txs [][]byte, verdicts map[int]bool, honest, faulted bool, spec RoundSpec) {
	w.Stats.OracleEvals["C08"]++
	wellBehaved := w.payloadWellBehaved(txs)
	for id, accept := range verdicts {
		n := w.Nodes[id]
		if accept {
			// (an engine fault injected on this verifier does not excuse an acceptance: whatever the
			// engine answered, the conditions are judged on what it really validated)
			if ok, why := w.proposalConditions(n, h, pv, txs); !ok {
				w.violate("C08", "malformed-proposal-accepted", why, "height %d: node %d accepted a proposal (%s %s) although: %s", h, id, spec.Kind, spec.Mut, why)
				if strings.Contains(why, "is not admissible") {
					// C10, process mode: a transaction is admitted to a block only if ...
					w.Stats.OracleEvals["C10"]++
					shape := why[strings.Index(why, "is not admissible"):]
					if j := strings.Index(shape, " ("); j > 0 {
						shape = shape[:j]
					}
					w.violate("C10", "inadmissible-tx-accepted-in-proposal", shape, "height %d: node %d accepted a proposal (%s %s) although: %s", h, id, spec.Kind, spec.Mut, why)
				}
			}
			continue
		}
		if honest && !faulted && wellBehaved && !w.Tainted {
			// the verifier's clock must not be behind the payload's second
			if n.Env.ClockOffset < pn.Env.ClockOffset {
				// the verifier's clock is behind the proposer's: a rejection for a future timestamp is legitimate
				w.probe("rejected-under-clock-skew")
				continue
			}
			w.violate("C08", "honest-proposal-rejected", "rejected", "height %d: node %d rejected the proposal honestly built by node %d on a well-behaved execution layer (%d txs): %s", h, id, pn.ID, len(txs), n.LastErr)
		}
	}
	if !honest {
		w.probe("byzantine-proposal-judged")
	}
}

// judgePrepareFailure: an honest proposer on a well-behaved execution layer must be able to build
// its block (C08), and the execution layer never has a reason to refuse the system transactions
// the consensus layer hands over (C06: consecutive per-module nonces, no gaps, no reuse).
func (w *World) judgePrepareFailure(pn *Node, h int64, t time.Time, txs [][]byte, err error, spec RoundSpec) {
	if pn.lastInjected {
		return
	}
	for _, why := range pn.lastGoatRejects {
		w.Stats.OracleEvals["C06"]++
		shape := "undecodable"
		if strings.Contains(why, "nonce") {
			shape = "nonce"
		}
		w.violate("C06", "system-tx-refused-by-execution-layer", shape, "height %d: node %d's engine refused to build a payload on the system transactions handed over: %s", h, pn.ID, why)
	}
	// baseapp swallows a failing PrepareProposal handler and proposes the raw mempool instead: a
	// proposal without the execution-block message is a failed build all the same
	if err == nil && w.payloadTimestamp(txs) != 0 {
		return
	}
	if err == nil {
		err = fmt.Errorf("the proposal carries no execution-block message (handler error swallowed by baseapp): %s", pn.LastErr)
	}
	w.probe("prepare-failed-without-injected-fault")
	w.note("prepare-failed", fmt.Sprintf("node %d tainted=%v rejects=%v: %v", pn.ID, w.Tainted, pn.lastGoatRejects, err))
	if pn.lastEnvTrouble || w.Tainted {
		return
	}
	shape := "other"
	if len(pn.lastGoatRejects) > 0 {
		shape = "system-tx-refused"
	}
	w.violate("C08", "honest-proposer-cannot-build", shape, "height %d: PrepareProposal on node %d failed with a synced, well-behaved execution layer and no injected fault: %v", h, pn.ID, err)
	// C19: nothing the chain accepted earlier may make block processing fail (a proposer that cannot
	// build, on every node, is a halted chain)
	w.Stats.OracleEvals["C19"]++
	w.violate("C19", "block-building-fails", shape, "height %d: PrepareProposal on node %d failed without any fault: %v", h, pn.ID, err)
}

func (w *World) payloadTimestamp(txs [][]byte) uint64 {
	if len(txs) == 0 {
		return 0
	}
	tx, err := w.decodeTx(txs[0])
	if err != nil || len(tx.GetMsgs()) != 1 {
		return 0
	}
	if m, ok := tx.GetMsgs()[0].(*goatmodtypes.MsgNewEthBlock); ok && m.Payload != nil {
		return m.Payload.Timestamp
	}
	return 0
}

// payloadWellBehaved: every user operation in the payload went through the contract guards.
func (w *World) payloadWellBehaved(txs [][]byte) bool {
	if len(txs) == 0 {
		return false
	}
	tx, err := w.decodeTx(txs[0])
	if err != nil || len(tx.GetMsgs()) != 1 {
		return false
	}
	m, ok := tx.GetMsgs()[0].(*goatmodtypes.MsgNewEthBlock)
	if !ok || m.Payload == nil {
		return false
	}
	blk := w.EL.Blocks[common.BytesToHash(m.Payload.BlockHash)]
	if blk == nil {
		return false
	}
	for _, o := range blk.Ops {
		if !o.Guards {
			return false
		}
	}
	return true
}

// checkHonestProposalShape: what an honest proposer builds without engine trouble.
func (w *World) checkHonestProposalShape(n *Node, txs [][]byte, faulted bool) {
	if faulted {
		return
	}
	w.Stats.OracleEvals["C08"]++
	if len(txs) > 16 {
		w.violate("C08", "honest-proposal-over-cap", "cap", "node %d built a proposal of %d transactions", n.ID, len(txs))
	}
	if len(txs) == 16 {
		w.probe("proposal-at-cap")
	}
	if cur := w.view(); cur != nil && len(txs) > 1 {
		for i, raw := range txs[1:] {
			w.Stats.OracleEvals["C10"]++
			tx, err := w.decodeTx(raw)
			if err != nil {
				w.violate("C10", "undecodable-proposed", "undecodable", "node %d proposed bytes that do not decode as a transaction at position %d", n.ID, i+1)
				continue
			}
			if ok, why := w.admissible(tx, cur.Relayer.Relayer.Proposer, w.Cmt.Height+1, false, false); !ok {
				w.violate("C10", "inadmissible-tx-proposed", why, "node %d put a transaction into its proposal (position %d, %s) although: %s", n.ID, i+1, txSummary(w, raw), why)
			}
		}
	}
	if w.payloadTimestamp(txs) == 0 {
		// goat-geth refuses to build on a parent whose timestamp is not in the past (which is why
		// the network runs with a commit timeout above one second): outside the statement
		if head := w.EL.Blocks[w.M.Head]; head != nil && uint64(simrt.Epoch.Add(simrt.GlobalNow()+n.Env.ClockOffset).Unix()) <= head.Timestamp {
			w.probe("proposer-clock-not-past-parent")
			return
		}
		w.violate("C08", "honest-proposal-without-block-message", "no-block-msg", "node %d built a proposal without a leading block message although its engine answered every call: %s", n.ID, n.LastErr)
	}
}

// injectJunk puts arbitrary content into the proposer's application mempool, bypassing CheckTx.
func (w *World) injectJunk(n *Node, kind string) {
	cv := w.chainView()
	if cv == nil || cv.Proposer == nil || n.Pool == nil {
		return
	}
	r := newRand(w.Seed, "junk", w.Cmt.Height, len(n.Pool.Junk), kind)
	var raw []byte
	var err error
	accept := &relayertypes.MsgAcceptProposerRequest{Proposer: cv.Proposer.Addr(), Epoch: cv.Rel.Epoch}
	switch kind {
	case "stale-seq":
		raw, err = w.proposerTx(cv.Proposer, []sdk.Msg{accept}, TxOpts{Seq: 0})
		if err == nil {
			// sequence 0 is the "unset" marker of TxOpts; force a stale one explicitly
			num, seq, _ := n.account(cv.Proposer.Tx.AccAddress())
			if seq > 0 {
				raw, err = w.buildTx(TxOpts{Msgs: []sdk.Msg{accept}, Signer: cv.Proposer.Tx, AccNum: num, Seq: seq - 1})
			}
		}
	case "ex-proposer":
		for _, v := range cv.Voters {
			if v != nil {
				raw, err = w.proposerTx(v, []sdk.Msg{&relayertypes.MsgAcceptProposerRequest{Proposer: v.Addr(), Epoch: cv.Rel.Epoch}}, TxOpts{})
				break
			}
		}
	case "expired":
		raw, err = w.proposerTx(cv.Proposer, []sdk.Msg{accept}, TxOpts{TimeoutHeight: uint64(maxInt(1, int(w.Cmt.Height)-1))})
	case "expired-by-one":
		// time-out height = the last committed height: still fine for the mempool, expired for the block being built
		raw, err = w.proposerTx(cv.Proposer, []sdk.Msg{accept}, TxOpts{TimeoutHeight: uint64(maxInt(1, int(w.Cmt.Height)))})
	case "foreign":
		var fm sdk.Msg = &authtypes.MsgUpdateParams{Authority: cv.Proposer.Addr(), Params: authtypes.DefaultParams()}
		if r.Chance(0.5) {
			fm = &consensustypes.MsgUpdateParams{Authority: cv.Proposer.Addr()}
		}
		raw, err = w.proposerTx(cv.Proposer, []sdk.Msg{fm}, TxOpts{})
	case "block-msg":
		raw, err = w.blockTx(n, n.Key, []sdk.Msg{&goatmodtypes.MsgNewEthBlock{Proposer: n.Key.Bech32(), Payload: &w.M.Cur.Goat.EthBlock}}, w.Cmt.Height+1, nil)
	case "bad-sig":
		raw, err = w.proposerTx(cv.Proposer, []sdk.Msg{accept}, TxOpts{BadSig: true})
	case "memo":
		raw, err = w.proposerTx(cv.Proposer, []sdk.Msg{accept}, TxOpts{Memo: "m"})
	case "valid-empty-vote":
		// a valid voted proposal that changes nothing but the sequence: consecutive ones fill the cap
		k := 0
		for _, j := range n.Pool.Junk {
			if j != nil {
				k++
			}
		}
		msg := &bitcointypes.MsgNewBlockHashes{Proposer: cv.Proposer.Addr(), StartBlockNumber: w.votedTip() + 1}
		vote, truth := w.makeVote(msg, nil, VoteOpt{SeqDelta: int64(w.JunkVotes)}, r)
		truth.Honest = false
		msg.Vote = vote
		num, seq, _ := n.account(cv.Proposer.Tx.AccAddress())
		raw, err = w.buildTx(TxOpts{Msgs: []sdk.Msg{msg}, Signer: cv.Proposer.Tx, AccNum: num, Seq: seq + uint64(w.JunkVotes)})
		if err == nil {
			w.rel().Truth[txHash(raw)] = truth
			w.JunkVotes++
		}
		_ = k
	}
	if err != nil || raw == nil {
		return
	}
	tx, derr := w.decodeTx(raw)
	if derr != nil {
		return
	}
	n.Pool.Junk = append(n.Pool.Junk, tx)
	w.Stats.Faults["mempool-junk/"+kind]++
}

// ---------------------------------------------------------------------------------------------
// shadow replicas

var shadowSeq = 1000

// shadow builds a replica on a fork of n's disk with its own engine handle.
func (w *World) shadow(n *Node, mapSalt uint64) *Node {
	shadowSeq++
	s := &Node{ID: n.ID, W: w, Key: n.Key, DB: n.DB.fork(), Home: n.Home, Crashes: shadowSeq}
	s.EL = newELNode(shadowSeq, w.EL, w.Seed)
	for k := range n.EL.Known {
		s.EL.Known[k] = true
	}
	s.EL.Head, s.EL.Safe, s.EL.Final = n.EL.Head, n.EL.Safe, n.EL.Final
	s.Env = &simrt.Env{Node: shadowSeq, EntropySeed: stream(w.Seed, "entropy", shadowSeq), MapSeed: stream(w.Seed, "maporder", shadowSeq, mapSalt),
		ClockOffset: n.Env.ClockOffset + time.Duration(int64(mapSalt%7)-3)*time.Second}
	s.ShadowEndpoint = fmt.Sprintf("sim://el%d", shadowSeq)
	s.start()
	return s
}

func (s *Node) discard() {
	s.App = nil
	s.Alive = false
}

// reexecute (C07): the same block on a fork of the node's pre-block disk, under another map
// order, clock and schedule, must give the same result.
func (w *World) reexecute(n *Node, b *DecidedBlock) {
	s := w.shadow(n, uint64(b.Height)*31+7)
	defer s.discard()
	if s.Height != b.Height-1 {
		return
	}
	w.probe("reexecuted-on-fork")
	resp, out, err := w.Cmt.finalizeOn(s, b, nil)
	if out.Panic != nil || err != nil || out.Sched.Deadlock {
		w.violate("C07", "reexecution-fails", "reexec-fails", "height %d: re-execution on a fork of node %d's disk fails: %v %v", b.Height, n.ID, out.Panic, err)
		return
	}
	w.Cmt.compareExecution(s, b, resp)
}

// forceFinalize: observe what FinalizeBlock does with a block honest replicas rejected.
func (w *World) forceFinalize(pn *Node, h int64, round int, t time.Time, pv *cmttypes.Validator, txs [][]byte, hash []byte, ci abci.CommitInfo, misb []abci.Misbehavior, mut string) {
	s := w.shadow(pn, uint64(h)*17+3)
	defer s.discard()
	if s.Height != h-1 {
		return
	}
	w.probe("forced-finalisation")
	before := s.moduleDigest(true)
	b := &DecidedBlock{Height: h, Round: round, Time: t, Proposer: pv.Address, Txs: txs, Hash: hash, LastCommit: ci, Misbehavior: misb, NextValHash: w.Cmt.NextVals.Hash()}
	resp, out, err := w.Cmt.finalizeOn(s, b, nil)
	w.Stats.OracleEvals["C19"]++
	engineInvalid := false
	for _, c := range s.lastCalls {
		if c.Call == "newPayload" && strings.HasPrefix(c.Result, "INVALID") {
			engineInvalid = true
		}
	}
	if out.Panic == nil && err != nil && !out.Sched.Deadlock && (engineInvalid || w.forcedPayloadUnknownToEngine(s, txs)) {
		// the engine answers INVALID for the payload at the end of the block: the block is not
		// committed (C09), which is the specified behaviour
		w.probe("forced-block-aborted-by-engine")
		return
	}
	if out.Panic != nil || err != nil || out.Sched.Deadlock {
		w.violate("C19", "forced-block-fails", "forced-"+finalizeShape(out, err), "height %d: FinalizeBlock of a rejected proposal (%s) failed instead of failing its transactions: panic=%v err=%v\n%s", h, mut, out.Panic, err, out.Stack)
		return
	}
	allFailed := true
	for i, r := range resp.TxResults {
		if r.Code != 0 {
			continue
		}
		allFailed = false
		tx, derr := w.decodeTx(txs[i])
		if derr != nil {
			w.violate("C10", "undecodable-executed", "undecodable", "height %d (forced): undecodable transaction %d has code 0", h, i)
			continue
		}
		proposer := w.Members[0].Addr()
		if w.M.Prev != nil {
			proposer = w.M.Prev.Relayer.Relayer.Proposer
		}
		if adm, awhy := w.admissible(tx, proposer, h, true, i == 0); !adm {
			w.violate("C10", "inadmissible-tx-took-effect", awhy, "height %d (forced, %s): transaction %d took effect although: %s", h, mut, i, awhy)
		}
		for _, mm := range tx.GetMsgs() {
			bm, isBlock := mm.(*goatmodtypes.MsgNewEthBlock)
			if !isBlock {
				continue
			}
			// C06/C08: a block message that takes effect is well-formed, whatever the proposal around it
			w.Stats.OracleEvals["C06"]++
			if ok, why := w.blockMessageConditions(h, pv, bm); !ok {
				w.violate("C08", "malformed-block-message-executed", why, "height %d: forced finalisation of mutation %q: the block message (tx %d) took effect although: %s", h, mut, i, why)
			}
		}
	}
	if allFailed && len(resp.ValidatorUpdates) == 0 {
		// every transaction failed: commit and compare with the state before, apart from what
		// BeginBlock/EndBlock do on their own (rewards, unlock sweep, elections) and account sequences
		w.Stats.OracleEvals["C19"]++
		_ = before
	}
}

// checkNothingPersisted (C09): after FinalizeBlock failed under an engine fault the node restarts
// at the previous height with the previous application hash.
func (w *World) checkNothingPersisted(n *Node, b *DecidedBlock) {
	w.Stats.OracleEvals["C09"]++
	n.start()
	n.DownFor = 0
	prevHash := []byte(nil)
	if pb := w.Cmt.Blocks[b.Height-1]; pb != nil && pb.Resp != nil {
		prevHash = pb.Resp.AppHash
	}
	if n.Height != b.Height-1 {
		w.violate("C09", "faulted-block-persisted", "height", "node %d restarted at height %d after FinalizeBlock(%d) failed under an engine fault", n.ID, n.Height, b.Height)
	} else if prevHash != nil && !bytes.Equal(n.AppHash, prevHash) {
		w.violate("C09", "faulted-block-persisted", "apphash", "node %d restarted at height %d with application hash %x, expected %x", n.ID, n.Height, n.AppHash, prevHash)
	}
	w.probe("retry-after-engine-fault")
}

// checkFinalizeUnderFault (C09): FinalizeBlock went through although an engine fault fired.
func (w *World) checkFinalizeUnderFault(n *Node, b *DecidedBlock, r *abci.ResponseFinalizeBlock) {
	w.Stats.OracleEvals["C09"]++
	for _, f := range n.EL.FaultsSnapshot {
		if !f.used {
			continue
		}
		switch f.Kind {
		case "error", "invalid", "invalid-noerr":
			w.violate("C09", "engine-fault-ignored", f.Call+"/"+f.Kind, "height %d node %d: the engine answered %s to %s while finalising and the block was committed anyway", b.Height, n.ID, f.Kind, f.Call)
		default:
			w.probe("finalize-tolerated-" + f.Kind)
		}
	}
}

func (w *World) forcedPayloadUnknownToEngine(s *Node, txs [][]byte) bool {
	if len(txs) == 0 {
		return false
	}
	tx, err := w.decodeTx(txs[0])
	if err != nil || len(tx.GetMsgs()) == 0 {
		return false
	}
	m, ok := tx.GetMsgs()[0].(*goatmodtypes.MsgNewEthBlock)
	if !ok || m.Payload == nil {
		return false
	}
	return !s.EL.Known[common.BytesToHash(m.Payload.BlockHash)]
}

// shadowDiff (C02, C10, C19): a failed transaction leaves every module's state exactly as it
// was. The block is executed on two forks of the node's pre-block disk, once as decided and once
// without its failed transactions; the four module stores must end up equal (the signer's account
// sequence legitimately differs, so the account store is not compared).
func (w *World) shadowDiff(n *Node, b *DecidedBlock, resp *abci.ResponseFinalizeBlock) {
	var kept [][]byte
	failed := 0
	var failedKinds []string
	for i, tx := range b.Txs {
		if i < len(resp.TxResults) && resp.TxResults[i].Code != 0 && i > 0 {
			// A transaction that failed while executing its messages has consumed its account
			// sequence: it is replaced by a placeholder of the same signer and sequence whose only
			// message fails before any write (accepting the proposer role for an epoch far away).
			// A transaction refused by the ante handler consumed nothing and is left out.
			r := resp.TxResults[i]
			anteRefusal := r.Codespace == "sdk" && !strings.Contains(r.Log, "failed to execute message") &&
				(r.Code == 2 || r.Code == 4 || r.Code == 8 || r.Code == 12 || r.Code == 21 || r.Code == 30 || r.Code == 32)
			if !anteRefusal {
				ph := w.placeholderFor(n, tx)
				if ph == nil {
					return // unknown signer: cannot build the comparison block
				}
				kept = append(kept, ph)
			}
			failed++
			failedKinds = append(failedKinds, txSummary(w, tx))
			continue
		}
		kept = append(kept, tx)
	}
	if failed == 0 {
		return
	}
	w.probe("shadow-differential")
	for _, p := range []string{"C02", "C10", "C19"} {
		w.Stats.OracleEvals[p]++
	}
	a := w.shadow(n, uint64(b.Height)*7+1)
	defer a.discard()
	c := w.shadow(n, uint64(b.Height)*7+2)
	defer c.discard()
	if a.Height != b.Height-1 || c.Height != b.Height-1 {
		return
	}
	b2 := *b
	b2.Txs = kept
	ra, oa, ea := w.Cmt.finalizeOn(a, b, nil)
	rc, oc, ec := w.Cmt.finalizeOn(c, &b2, nil)
	if oa.Panic != nil || ea != nil || oc.Panic != nil || ec != nil || ra == nil || rc == nil {
		return
	}
	a.run("commit", func() { a.App.Commit() })
	c.run("commit", func() { c.App.Commit() })
	a.Height, c.Height = b.Height, b.Height
	// the placeholders must have failed too, otherwise the comparison block is not what it is meant to be
	for i, r := range rc.TxResults {
		if i > 0 && i < len(ra.TxResults) && (r.Code == 0) != (ra.TxResults[i].Code == 0) && len(kept) == len(b.Txs) {
			return
		}
	}
	da, dc := a.moduleDigest(true), c.moduleDigest(true)
	for _, name := range []string{"relayer", "bitcoin", "locking", "goat"} {
		if da[name] != dc[name] {
			keys := diffDumps(a.storeDump(name), c.storeDump(name))
			if len(keys) > 4 {
				keys = keys[:4]
			}
			shape := name + ":" + storeKeyShape(keys)
			var codes []string
			for i := range ra.TxResults {
				cc := -1
				if i < len(rc.TxResults) {
					cc = int(rc.TxResults[i].Code)
				}
				codes = append(codes, fmt.Sprintf("%d:%d/%d", i, ra.TxResults[i].Code, cc))
			}
			detail := fmt.Sprintf("height %d: executing the block with and without its %d failed transaction(s) (%v) leaves store %q different at keys %v; codes as decided/with placeholders %v", b.Height, failed, failedKinds, name, keys, codes)
			w.violate("C19", "failed-tx-changed-state", shape, "%s", detail)
			w.violate("C02", "failed-proposal-changed-state", shape, "%s", detail)
			w.violate("C10", "rejected-tx-changed-state", shape, "%s", detail)
			return
		}
	}
}

// multiSchedule (C08): building the proposal again on the same state under other goroutine
// schedules gives the same mempool selection and the same system-transaction prefix.
func (w *World) multiSchedule(pn *Node, h int64, t time.Time, proposer []byte, eci abci.ExtendedCommitInfo, txs [][]byte, k int) {
	sig := func(txs [][]byte) string {
		var parts []string
		for _, tx := range txs[minInt(1, len(txs)):] {
			parts = append(parts, hx(sha(tx))[:12])
		}
		goat := "none"
		if len(txs) > 0 {
			if tx, err := w.decodeTx(txs[0]); err == nil && len(tx.GetMsgs()) == 1 {
				if m, ok := tx.GetMsgs()[0].(*goatmodtypes.MsgNewEthBlock); ok && m.Payload != nil && len(m.Payload.ExtraData) == 33 {
					n := int(m.Payload.ExtraData[0])
					if n <= len(m.Payload.Transactions) {
						goat = hx(sha(m.Payload.Transactions[:n]...))[:12]
					}
				}
			}
		}
		return fmt.Sprintf("%d txs [%s] system-prefix %s", len(txs), strings.Join(parts, ","), goat)
	}
	want := sig(txs)
	saved := w.SchedSalt
	defer func() { w.SchedSalt = saved }()
	for i := 1; i <= k; i++ {
		w.SchedSalt = saved + uint64(i)*1000003
		got, out, err := w.Cmt.prepareOn(pn, h, t, proposer, eci, nil)
		w.Stats.OracleEvals["C08"]++
		if out.Panic != nil || err != nil || pn.lastFaulted {
			continue
		}
		if s := sig(got); s != want {
			w.violate("C08", "proposal-depends-on-schedule", "schedule", "height %d: node %d built different proposals on the same state under different goroutine schedules\n first: %s\n other: %s", h, pn.ID, want, s)
			return
		}
	}
	w.probe("proposal-rebuilt-under-other-schedules")
}

// placeholderFor builds a transaction of the same signer and account sequence as raw whose only
// message fails before it writes anything.
func (w *World) placeholderFor(n *Node, raw []byte) []byte {
	tx, err := w.decodeTx(raw)
	if err != nil {
		return nil
	}
	sv, ok := tx.(interface {
		GetSignaturesV2() ([]signingtypes.SignatureV2, error)
	})
	if !ok {
		return nil
	}
	sigs, err := sv.GetSignaturesV2()
	if err != nil || len(sigs) != 1 {
		return nil
	}
	addr := sdk.AccAddress(sigs[0].PubKey.Address())
	m := w.rel().ByAddr[addr.String()]
	if m == nil {
		return nil
	}
	num, _, ok2 := n.account(addr)
	if !ok2 {
		return nil
	}
	ph, err := w.buildTx(TxOpts{Msgs: []sdk.Msg{&relayertypes.MsgAcceptProposerRequest{Proposer: m.Addr(), Epoch: 1 << 60}}, Signer: m.Tx, AccNum: num, Seq: sigs[0].Sequence})
	if err != nil {
		return nil
	}
	return ph
}

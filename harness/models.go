package main

import (
	"bytes"
	"fmt"
	"math/big"
	"sort"
	"strings"
	"time"

	"github.com/ethereum/go-ethereum/common"
	"github.com/ethereum/go-ethereum/core/types/goattypes"
	lockingtypes "github.com/goatnetwork/goat/x/locking/types"
)

// Models holds the reference ledgers that the oracles keep next to the running system. They are
// fed only by what the simulator itself did and by what the application acknowledged (tx result
// codes, decided blocks); they share no code with the application.
type Models struct {
	w    *World
	Prev *Snap
	Cur  *Snap

	Canon      []*ELBlock // execution blocks made canonical by successful block messages
	CanonAt    []int64    // consensus height of each
	CanonTime  []time.Time
	Head       common.Hash
	HeadNumber uint64
	BeaconRoot []byte

	// C11
	Locked    map[string]*big.Int // denom -> total ever locked
	Delivered map[string]*big.Int // denom -> released and delivered to the EL
	UnlockReq map[uint64]*unlockReq

	// C12
	In        *big.Int // grants + positive gas + genesis remain
	PaidOut   *big.Int // rewards delivered to the EL
	GenRemain *big.Int

	// C06
	Owed         *owedLedger
	BridgeNonce  uint64
	LockingNonce uint64

	// C14
	Punished map[string]*punishment

	// C13: how many power-changing operations each validator has seen (each may truncate once)
	PowerOps    map[string]int
	PowerOpsAll int // weight updates touch every holder

	// relayer / bitcoin ledgers live in their own files
	Rel *relModel
	Btc *btcModel
}

type unlockReq struct {
	ID        uint64
	Val       common.Address
	Token     common.Address
	Amount    *big.Int
	ReqTime   time.Time
	ReqHeight int64
	Exit      int // 1 certainly exiting, 0 certainly not, -1 unknown
	Queued    bool
	Delivered bool
	Dup       bool
	Lost      bool
}

type punishment struct {
	Kind        string // tombstone | jail
	Height      int64
	JailedUntil time.Time
}

func newModels(w *World, genLock map[int]map[string]*big.Int, remain *big.Int) *Models {
	m := &Models{w: w, Locked: map[string]*big.Int{}, Delivered: map[string]*big.Int{}, UnlockReq: map[uint64]*unlockReq{},
		In: new(big.Int).Set(remain), PaidOut: new(big.Int), GenRemain: new(big.Int).Set(remain), Punished: map[string]*punishment{}, PowerOps: map[string]int{}}
	for _, locks := range genLock {
		for tok, amt := range locks {
			d := lockingtypes.TokenDenom(common.HexToAddress(tok))
			if m.Locked[d] == nil {
				m.Locked[d] = new(big.Int)
			}
			m.Locked[d].Add(m.Locked[d], amt)
		}
	}
	m.Head = w.EL.Genesis.Hash
	m.BeaconRoot = make([]byte, 32)
	m.Owed = newOwedLedger()
	m.Rel = newRelModel(w)
	m.Btc = newBtcModel(w)
	return m
}

func addTo(m map[string]*big.Int, k string, v *big.Int) {
	if m[k] == nil {
		m[k] = new(big.Int)
	}
	m[k].Add(m[k], v)
}

// afterBlock runs every per-block oracle on the state committed by b.
func (w *World) afterBlock(b *DecidedBlock) {
	m := w.M
	n := w.refNode()
	if n == nil {
		return
	}
	snap, err := n.snapshot()
	if err != nil {
		w.violate("C18", "export-fails", "export-panic", "height %d: exporting module state failed: %v", b.Height, err)
		return
	}
	if m.Prev == nil {
		// first block: the previous state is genesis, which we did not snapshot; take it from a
		// fresh read of the same node at height-0 semantics by treating cur as prev for deltas
		// that need a baseline (nothing was slashed or unlocked yet).
	}
	m.Cur = snap
	bi := w.blockInfo(b)
	w.oracleHead(bi)      // C09
	w.oracleHandover(bi)  // C06
	w.oracleLocking(bi)   // C11, C13, C14, C15
	w.oracleRewards(bi)   // C12
	w.oracleRelayer(bi)   // C01, C02, C16
	w.oracleBitcoin(bi)   // C03, C05, C17, C20
	w.oracleAdmission(bi) // C10
	w.oracleQueues(bi)    // C06 (after every oracle has recorded what this block owes)
	w.abstractState(bi)
	m.Prev = snap
	w.Stats.SimTime = w.Cmt.Time.Sub(simEpoch())
}

// ---------------------------------------------------------------------------------------------
// C09: head model

func (w *World) oracleHead(bi *BlockInfo) {
	m, b := w.M, bi.B
	w.Stats.OracleEvals["C09"]++
	advance := false
	if bi.HasMsg && bi.MsgOK {
		p := bi.Payload
		child := bytes.Equal(p.ParentHash, m.Head[:]) && p.BlockNumber == m.HeadNumber+1
		proposerOK := false
		if a, err := addrFromBech32(bi.Msg.Proposer); err == nil {
			proposerOK = bytes.Equal(a, b.Proposer) && bytes.Equal(p.FeeRecipient, b.Proposer)
		}
		rootOK := bytes.Equal(p.BeaconRoot, m.BeaconRoot)
		switch {
		case !child:
			w.violate("C09", "head-advanced-by-non-child", "non-child", "height %d: block message succeeded with parent %x number %d, recorded head was %x number %d", b.Height, p.ParentHash[:6], p.BlockNumber, m.Head[:6], m.HeadNumber)
		case !proposerOK:
			w.violate("C09", "head-advanced-by-non-proposer", "non-proposer", "height %d: block message by %s (fee recipient %x) succeeded, consensus proposer is %x", b.Height, bi.Msg.Proposer, p.FeeRecipient, b.Proposer)
		case p.BlobGasUsed > 0:
			w.violate("C09", "head-advanced-with-blob-gas", "blob", "height %d: payload with blob gas %d succeeded", b.Height, p.BlobGasUsed)
		case !rootOK:
			w.violate("C09", "head-advanced-with-wrong-beacon-root", "beacon-root", "height %d: payload beacon root %x, recorded %x", b.Height, p.BeaconRoot, m.BeaconRoot)
		}
		advance = true
	}
	got := w.M.Cur.Goat
	if advance {
		p := bi.Payload
		m.Head = common.BytesToHash(p.BlockHash)
		m.HeadNumber = p.BlockNumber
		m.BeaconRoot = b.Hash
		if bi.ELBlock != nil {
			for _, o := range bi.ELBlock.Ops {
				if !o.Guards {
					w.Tainted = true // the execution layer's state now reflects requests no contract would emit
				}
			}
			m.Canon = append(m.Canon, bi.ELBlock)
			m.CanonAt = append(m.CanonAt, b.Height)
			m.CanonTime = append(m.CanonTime, b.Time)
		} else {
			w.violate("C09", "head-unknown-to-engine", "unknown-block", "height %d: recorded head %x was never built or validated by any engine", b.Height, p.BlockHash[:6])
		}
		w.probe("head-advanced")
	} else {
		w.probe("head-stalled")
		if b.Honest && b.WellBehaved && !w.Tainted {
			w.Stats.OracleEvals["C08"]++
			log := ""
			if len(bi.TxRes) > 0 {
				log = bi.TxRes[0].Log
			}
			w.violate("C08", "honest-block-message-fails", shapeOfLog(log), "height %d: the block message of a proposal honestly built on a well-behaved execution layer and accepted by every replica failed when finalised: %s", b.Height, log)
		}
	}
	if !bytes.Equal(got.EthBlock.BlockHash, m.Head[:]) || got.EthBlock.BlockNumber != m.HeadNumber {
		w.violate("C09", "recorded-head-differs-from-model", "head-mismatch", "height %d: recorded head %x/%d, model %x/%d (advance=%v)", b.Height, got.EthBlock.BlockHash[:6], got.EthBlock.BlockNumber, m.Head[:6], m.HeadNumber, advance)
	}
	if !bytes.Equal(got.BeaconRoot, m.BeaconRoot) {
		w.violate("C09", "recorded-beacon-root-differs", "root-mismatch", "height %d: recorded beacon root %x, model %x", b.Height, got.BeaconRoot, m.BeaconRoot)
	}
	// the last engine calls of the reference execution: newPayload(head) then fcu(head, parent, parent)
	calls := b.ELCalls
	if len(calls) < 2 {
		w.violate("C09", "engine-not-notified", "no-calls", "height %d: FinalizeBlock made %d engine calls", b.Height, len(calls))
		return
	}
	np, fc := calls[len(calls)-2], calls[len(calls)-1]
	headBlk := w.EL.Blocks[m.Head]
	parent := common.Hash{}
	if headBlk != nil {
		parent = headBlk.Parent
	}
	wantNP := fmt.Sprintf("block %d %x parent %x", m.HeadNumber, m.Head[:6], parent[:6])
	wantFC := fmt.Sprintf("head=%x safe=%x final=%x", m.Head[:6], parent[:6], parent[:6])
	if np.Call != "newPayload" || np.Digest != wantNP || fc.Call != "fcuHead" || fc.Digest != wantFC {
		w.violate("C09", "engine-told-wrong-head", "wrong-notify", "height %d: engine was told %s(%s), %s(%s); expected newPayload(%s), fcuHead(%s)", b.Height, np.Call, np.Digest, fc.Call, fc.Digest, wantNP, wantFC)
	}
}

// ---------------------------------------------------------------------------------------------
// C11, C13, C14, C15: locking

func denomOf(tok common.Address) string { return lockingtypes.TokenDenom(tok) }

func (w *World) oracleLocking(bi *BlockInfo) {
	m, b, cur, prev := w.M, bi.B, w.M.Cur, w.M.Prev
	w.Stats.OracleEvals["C11"]++
	lk := cur.Locking
	params := lk.Params

	thresholds := map[string]*big.Int{}
	for _, t := range lk.Tokens {
		thresholds[t.Denom] = t.Token.Threshold.BigInt()
	}

	// feed the ledger from a successful block message
	if bi.MsgOK && bi.ReqErr == nil {
		for _, l := range bi.LockingReq.Locks {
			addTo(m.Locked, denomOf(l.Token), l.Amount)
			m.PowerOps[string(l.Validator.Bytes())]++
		}
		for _, u := range bi.LockingReq.Unlocks {
			m.PowerOps[string(u.Validator.Bytes())]++
		}
		m.PowerOpsAll += len(bi.LockingReq.UpdateWeights)
		// running holdings to decide which unlocks certainly exit
		for _, u := range bi.LockingReq.Unlocks {
			ur := &unlockReq{ID: u.Id, Val: u.Validator, Token: u.Token, Amount: new(big.Int).Set(u.Amount), ReqTime: b.Time, ReqHeight: b.Height, Exit: -1}
			if old := m.UnlockReq[u.Id]; old != nil {
				ur.Dup = true
				old.Dup = true
			}
			// exit is certain if the validator was already inactive/tombstoned before this block
			if prev != nil {
				if pv := prev.Vals[string(u.Validator.Bytes())]; pv != nil && (pv.Status == lockingtypes.Inactive || pv.Status == lockingtypes.Tombstoned) {
					ur.Exit = 1
				}
			}
			m.UnlockReq[u.Id] = ur
			w.probe("unlock-requested")
			// C15: dropping below the threshold leaves the candidate set at once
			cv := cur.Vals[string(u.Validator.Bytes())]
			if cv != nil {
				d := denomOf(u.Token)
				hold := cv.Locking.AmountOf(d).BigInt()
				if thr := thresholds[d]; thr != nil && hold.Cmp(thr) < 0 {
					w.probe("unlock-below-threshold")
					if cv.Status == lockingtypes.Active || cv.Status == lockingtypes.Pending || cv.Status == lockingtypes.Downgrade || cv.Power != 0 {
						w.violate("C15", "below-threshold-still-candidate", "below-threshold", "height %d: validator %x holds %s %s (< threshold %s) after an unlock but has status %s power %d", b.Height, u.Validator[:4], hold, d, thr, cv.Status, cv.Power)
					}
					if _, in := cur.ValSet[string(u.Validator.Bytes())]; in {
						w.violate("C15", "below-threshold-still-in-set", "below-threshold-set", "height %d: validator %x is below the threshold of %s but still in the recorded validator set", b.Height, u.Validator[:4], d)
					}
				}
			}
		}
	}

	// C11: conservation per denom
	held := map[string]*big.Int{}
	for _, v := range lk.Validators {
		for _, c := range v.Locking {
			if c.Amount.IsNegative() {
				w.violate("C11", "negative-holding", "neg-holding", "height %d: validator %x holds %s", b.Height, cmtAddr(v.Pubkey)[:4], c)
			}
			addTo(held, c.Denom, c.Amount.BigInt())
		}
	}
	slashed := map[string]*big.Int{}
	for _, c := range lk.Slashed {
		if c.Amount.IsNegative() {
			w.violate("C11", "negative-slashed", "neg-slashed", "height %d: slashed %s", b.Height, c)
		}
		addTo(slashed, c.Denom, c.Amount.BigInt())
	}
	released := map[string]*big.Int{}
	seenQueued := map[uint64]bool{}
	noteQueued := func(u *lockingtypes.Unlock, maturity *time.Time) {
		d := denomOf(common.BytesToAddress(u.Token))
		if u.Amount.IsNegative() {
			w.violate("C11", "negative-unlock", "neg-unlock", "height %d: queued unlock %d has amount %s", b.Height, u.Id, u.Amount)
		}
		addTo(released, d, u.Amount.BigInt())
		seenQueued[u.Id] = true
		if r := m.UnlockReq[u.Id]; r != nil && !r.Dup {
			if !r.Queued {
				r.Queued = true
				if u.Amount.BigInt().Cmp(r.Amount) < 0 {
					w.probe("unlock-clipped-to-holding")
				}
				if u.Amount.BigInt().Cmp(r.Amount) > 0 {
					w.violate("C11", "unlock-exceeds-request", "over-request", "height %d: unlock %d releases %s, requested %s", b.Height, u.Id, u.Amount, r.Amount)
				}
				if prev != nil && r.ReqHeight == b.Height {
					if pv := prev.Vals[string(r.Val.Bytes())]; pv != nil {
						before := new(big.Int).Set(pv.Locking.AmountOf(d).BigInt())
						for _, l := range bi.LockingReq.Locks {
							if l.Validator == r.Val && l.Token == r.Token {
								before.Add(before, l.Amount)
							}
						}
						if u.Amount.BigInt().Cmp(before) > 0 {
							w.violate("C11", "unlock-exceeds-holding", "over-holding", "height %d: unlock %d releases %s, validator held at most %s", b.Height, u.Id, u.Amount, before)
						}
					}
				}
				if maturity != nil {
					// C15: maturity no earlier than request time + unlock period (exit period if certainly exiting)
					w.Stats.OracleEvals["C15"]++
					min := r.ReqTime.Add(params.UnlockDuration)
					if r.Exit == 1 {
						min = r.ReqTime.Add(params.ExitingDuration)
					}
					if maturity.Before(min) {
						w.violate("C15", "unlock-matures-early", fmt.Sprintf("early-exit%d", r.Exit), "height %d: unlock %d requested at %s matures at %s, earliest allowed %s", b.Height, u.Id, r.ReqTime.Format(time.RFC3339), maturity.Format(time.RFC3339), min.Format(time.RFC3339))
					}
				}
			}
		}
	}
	for _, q := range lk.UnlockQueue {
		ts := q.Timestamp
		for _, u := range q.Unlocks {
			noteQueued(u, &ts)
		}
	}
	for _, u := range lk.EthTxQueue.Unlocks {
		noteQueued(u, nil)
	}
	// delivered this block (C15: not before the delay, once)
	if bi.MsgOK && bi.ELBlock != nil {
		for _, g := range bi.ELBlock.GoatTxs {
			if cu, ok := g.Tx.(*goattypes.CompleteUnlockTx); ok {
				addTo(m.Delivered, denomOf(cu.Token), cu.Amount)
				w.probe("unlock-delivered")
				if r := m.UnlockReq[cu.Id]; r != nil && !r.Dup {
					w.Stats.OracleEvals["C15"]++
					if r.Delivered {
						w.violate("C15", "unlock-delivered-twice", "twice", "height %d: unlock %d delivered twice", b.Height, cu.Id)
					}
					r.Delivered = true
					min := r.ReqTime.Add(params.UnlockDuration)
					if r.Exit == 1 {
						min = r.ReqTime.Add(params.ExitingDuration)
					}
					if b.Time.Before(min) {
						w.violate("C15", "unlock-delivered-early", fmt.Sprintf("early-delivery-exit%d", r.Exit), "height %d (%s): unlock %d requested at %s delivered before %s", b.Height, b.Time.Format(time.RFC3339), cu.Id, r.ReqTime.Format(time.RFC3339), min.Format(time.RFC3339))
					}
				}
			}
		}
	}
	// C15 / C06: an unlock that was queued stays queued (maturity queue, then hand-over queue) until
	// the execution layer is told; it never just disappears
	for _, id := range sortedU64Keys(m.UnlockReq) {
		r := m.UnlockReq[id]
		if r.Dup || !r.Queued || r.Delivered || r.Lost || seenQueued[id] {
			continue
		}
		r.Lost = true
		w.Stats.OracleEvals["C15"]++
		w.violate("C15", "unlock-lost", "lost", "height %d: unlock %d (requested at height %d, queued since) is in neither the maturity queue nor the hand-over queue and was never handed to the execution layer", b.Height, id, r.ReqHeight)
		w.violate("C06", "owed-item-dropped", "unlock-lost", "height %d: unlock %d left the queues without being handed over", b.Height, id)
	}
	denoms := map[string]bool{}
	for d := range m.Locked {
		denoms[d] = true
	}
	for d := range held {
		denoms[d] = true
	}
	for d := range slashed {
		denoms[d] = true
	}
	for d := range released {
		denoms[d] = true
	}
	for d := range m.Delivered {
		denoms[d] = true
	}
	z := new(big.Int)
	get := func(mm map[string]*big.Int, d string) *big.Int {
		if mm[d] == nil {
			return z
		}
		return mm[d]
	}
	for d := range denoms {
		sum := new(big.Int).Add(get(held, d), get(slashed, d))
		sum.Add(sum, get(released, d))
		sum.Add(sum, get(m.Delivered, d))
		if sum.Cmp(get(m.Locked, d)) != 0 {
			w.violate("C11", "conservation", "conservation", "height %d denom %s: locked %s != held %s + slashed %s + released(queued %s + delivered %s)", b.Height, d, get(m.Locked, d), get(held, d), get(slashed, d), get(released, d), get(m.Delivered, d))
		}
	}

	w.oracleValidatorSet(bi, thresholds)
	w.oraclePunishment(bi)
}

// C13: the recorded set is the top-K and equals what CometBFT accumulated.
func (w *World) oracleValidatorSet(bi *BlockInfo, thresholds map[string]*big.Int) {
	m, b, cur := w.M, bi.B, w.M.Cur
	_ = m
	w.Stats.OracleEvals["C13"]++
	max := cur.Locking.Params.MaxValidators
	if int64(len(cur.ValSet)) > max {
		w.violate("C13", "set-too-large", "too-large", "height %d: %d validators recorded, maximum %d", b.Height, len(cur.ValSet), max)
	}
	acc := w.Cmt.AccPower
	for a, p := range cur.ValSet {
		if ap, ok := acc[a]; !ok || uint64(ap) != p {
			w.violate("C13", "set-differs-from-cometbft", "acc-mismatch", "height %d: validator %x recorded with power %d, CometBFT has %d (member=%v)", b.Height, []byte(a)[:4], p, ap, ok)
		}
		v := cur.Vals[a]
		if v == nil {
			w.violate("C13", "member-without-record", "no-record", "height %d: set member %x has no validator record", b.Height, []byte(a)[:4])
			continue
		}
		if v.Status != lockingtypes.Active {
			w.violate("C13", "member-not-active", "member-status", "height %d: set member %x has status %s", b.Height, []byte(a)[:4], v.Status)
		}
		if v.Power != p || p == 0 {
			w.violate("C13", "member-power", "member-power", "height %d: set member %x recorded power %d, validator power %d", b.Height, []byte(a)[:4], p, v.Power)
		}
	}
	for a, ap := range acc {
		if _, ok := cur.ValSet[a]; !ok {
			w.violate("C13", "set-differs-from-cometbft", "acc-extra", "height %d: CometBFT has validator %x with power %d which the module does not record", b.Height, []byte(a)[:4], ap)
		}
	}
	// no eligible non-member outranks a member
	type cand struct {
		addr  string
		power uint64
	}
	var minMember *cand
	for a, p := range cur.ValSet {
		c := &cand{a, p}
		if minMember == nil || p < minMember.power || (p == minMember.power && a < minMember.addr) {
			minMember = c
		}
	}
	for a, v := range cur.Vals {
		if _, in := cur.ValSet[a]; in {
			continue
		}
		if v.Status == lockingtypes.Active {
			w.violate("C13", "active-non-member", "active-nonmember", "height %d: validator %x is active but not in the set", b.Height, []byte(a)[:4])
		}
		if v.Status != lockingtypes.Pending || v.Power == 0 {
			continue
		}
		if int64(len(cur.ValSet)) < max {
			w.violate("C13", "eligible-left-out", "left-out", "height %d: pending validator %x with power %d is not in the set although it has %d of %d members", b.Height, []byte(a)[:4], v.Power, len(cur.ValSet), max)
		} else if minMember != nil && (v.Power > minMember.power || (v.Power == minMember.power && a > minMember.addr)) {
			w.violate("C13", "non-member-outranks-member", "outranked", "height %d: pending validator %x (power %d) outranks member %x (power %d)", b.Height, []byte(a)[:4], v.Power, []byte(minMember.addr)[:4], minMember.power)
		}
		if int64(len(cur.ValSet)) >= max {
			w.probe("set-full-with-candidate-outside")
		}
	}
	if len(cur.ValSet) > 1 {
		pw := map[uint64]int{}
		for _, p := range cur.ValSet {
			pw[p]++
			if pw[p] == 2 {
				w.probe("power-tie-in-set")
			}
		}
	}
}

// C14: punishments are applied once and stick.
func (w *World) oraclePunishment(bi *BlockInfo) {
	m, b, cur, prev := w.M, bi.B, w.M.Cur, w.M.Prev
	w.Stats.OracleEvals["C14"]++
	params := cur.Locking.Params
	thr := cur.Locking.Tokens
	type slashSpec struct{ fraction, why string }
	slashes := map[string][]slashSpec{}
	// evidence in this block
	cp := w.Cmt.Params
	for _, e := range b.Misbehavior {
		age := b.Time.Sub(e.Time)
		ageBlocks := b.Height - e.Height
		expired := age > cp.Evidence.MaxAgeDuration && ageBlocks > cp.Evidence.MaxAgeNumBlocks
		a := string(e.Validator.Address)
		cv := cur.Vals[a]
		if cv == nil {
			continue
		}
		var pv *lockingtypes.Validator
		if prev != nil {
			pv = prev.Vals[a]
		}
		if expired {
			w.probe("evidence-expired")
			if pv != nil && pv.Status != lockingtypes.Tombstoned && cv.Status == lockingtypes.Tombstoned {
				w.violate("C14", "expired-evidence-punished", "expired", "height %d: validator %x tombstoned on evidence older than both limits (age %s, %d blocks)", b.Height, e.Validator.Address[:4], age, ageBlocks)
			}
			continue
		}
		w.probe("evidence-fresh")
		if cv.Status != lockingtypes.Tombstoned {
			w.violate("C14", "evidence-not-tombstoned", "not-tombstoned", "height %d: validator %x has unexpired evidence (age %s, %d blocks) but status %s", b.Height, e.Validator.Address[:4], age, ageBlocks, cv.Status)
		}
		if pv != nil && pv.Status != lockingtypes.Tombstoned {
			m.Punished[a] = &punishment{Kind: "tombstone", Height: b.Height}
			slashes[a] = append(slashes[a], slashSpec{params.SlashFractionDoubleSign.String(), "double-sign"})
		}
	}
	m.windowStep(bi)
	// status transitions of every validator
	for a, cv := range cur.Vals {
		var pv *lockingtypes.Validator
		if prev != nil {
			pv = prev.Vals[a]
		}
		if pv == nil {
			continue
		}
		// tombstoned is for ever
		if pv.Status == lockingtypes.Tombstoned {
			if cv.Status != lockingtypes.Tombstoned || cv.Power != 0 {
				w.violate("C14", "tombstone-lifted", "tombstone-lifted", "height %d: tombstoned validator %x now has status %s power %d", b.Height, []byte(a)[:4], cv.Status, cv.Power)
			}
			if _, in := cur.ValSet[a]; in {
				w.violate("C14", "tombstoned-in-set", "tombstone-set", "height %d: tombstoned validator %x is in the validator set", b.Height, []byte(a)[:4])
			}
		}
		// downtime jail
		if pv.Status == lockingtypes.Active && cv.Status == lockingtypes.Downgrade {
			w.probe("downtime-jailed")
			m.Punished[a] = &punishment{Kind: "jail", Height: b.Height, JailedUntil: cv.JailedUntil}
			if cv.Power != 0 {
				w.violate("C14", "jailed-with-power", "jail-power", "height %d: jailed validator %x keeps power %d", b.Height, []byte(a)[:4], cv.Power)
			}
			if want := b.Time.Add(params.DowntimeJailDuration); !cv.JailedUntil.Equal(want) {
				w.violate("C14", "jail-time", "jail-time", "height %d: validator %x jailed until %s, expected %s", b.Height, []byte(a)[:4], cv.JailedUntil, want)
			}
			slashes[a] = append([]slashSpec{{params.SlashFractionDowntime.String(), "downtime"}}, slashes[a]...)
			// it must really have missed enough blocks: checked by the window model below
			if ws := w.M.window(a); ws != nil && !ws.tripped {
				w.violate("C14", "jailed-without-offence", "no-offence", "height %d: validator %x jailed with %d misses in the window (max %d)", b.Height, []byte(a)[:4], ws.missed, params.MaxMissedPerWindow)
			}
		}
		// only active validators are counted for downtime
		if cv.Status == lockingtypes.Downgrade && pv.Status != lockingtypes.Downgrade && pv.Status != lockingtypes.Active {
			w.violate("C14", "non-active-jailed", "jailed-from-"+pv.Status.String(), "height %d: validator %x went from %s to jailed (downtime applies to active validators only)", b.Height, []byte(a)[:4], pv.Status)
		}
		if pv.Status != lockingtypes.Active && cv.Status == pv.Status && cv.SigningInfo.Missed > pv.SigningInfo.Missed {
			w.violate("C14", "inactive-counted", "inactive-counted", "height %d: validator %x (status %s) had its missed-blocks counter raised %d -> %d", b.Height, []byte(a)[:4], pv.Status, pv.SigningInfo.Missed, cv.SigningInfo.Missed)
		}
		if pv.Status == lockingtypes.Downgrade && cv.Status != lockingtypes.Downgrade && cv.Status != lockingtypes.Tombstoned && cv.Status != lockingtypes.Inactive {
			// unjailed: only after the jail time and with every threshold met
			w.probe("unjailed")
			if !b.Time.After(pv.JailedUntil) {
				w.violate("C14", "unjailed-early", "unjail-early", "height %d (%s): validator %x left jail before %s", b.Height, b.Time, []byte(a)[:4], pv.JailedUntil)
			}
			for _, t := range thr {
				if cv.Locking.AmountOf(t.Denom).LT(t.Token.Threshold) {
					w.violate("C14", "unjailed-below-threshold", "unjail-threshold", "height %d: validator %x left jail holding %s of %s, threshold %s", b.Height, []byte(a)[:4], cv.Locking.AmountOf(t.Denom), t.Denom, t.Token.Threshold)
				}
			}
		}
		if pv.Status == lockingtypes.Active && cv.Status == lockingtypes.Tombstoned {
			// jailed for downtime and tombstoned in the same block: the downtime slash came first
			if ws := w.M.window(a); ws != nil && ws.tripped {
				slashes[a] = append([]slashSpec{{params.SlashFractionDowntime.String(), "downtime"}}, slashes[a]...)
				w.probe("jailed-and-tombstoned-same-block")
			}
		}
		if cv.Status == lockingtypes.Downgrade || cv.Status == lockingtypes.Inactive {
			if cv.Power != 0 {
				w.violate("C14", "punished-with-power", "status-power", "height %d: validator %x has status %s and power %d", b.Height, []byte(a)[:4], cv.Status, cv.Power)
			}
			if _, in := cur.ValSet[a]; in {
				w.violate("C14", "punished-in-set", "status-set", "height %d: validator %x with status %s is in the validator set", b.Height, []byte(a)[:4], cv.Status)
			}
		}
	}
	for a, list := range slashes {
		var fr, why []string
		for _, sl := range list {
			fr = append(fr, sl.fraction)
			why = append(why, sl.why)
		}
		var pv *lockingtypes.Validator
		if prev != nil {
			pv = prev.Vals[a]
		}
		w.checkSlash(bi, a, pv, cur.Vals[a], fr, strings.Join(why, "+"))
	}
}

// checkSlash: slashed totals grow by exactly floor(holding*fraction) (everything if that is zero), once.
func (w *World) checkSlash(bi *BlockInfo, a string, pv, cv *lockingtypes.Validator, fractions []string, why string) {
	if pv == nil || cv == nil {
		return
	}
	b := bi.B
	// the validator's holdings after the slash, before this block's own lock/unlock requests
	locks := map[string]*big.Int{}
	unlocked := false
	if bi.MsgOK && bi.ReqErr == nil {
		for _, l := range bi.LockingReq.Locks {
			if string(l.Validator.Bytes()) == a {
				addTo(locks, denomOf(l.Token), l.Amount)
			}
		}
		for _, u := range bi.LockingReq.Unlocks {
			if string(u.Validator.Bytes()) == a {
				unlocked = true
			}
		}
	}
	if unlocked {
		return // holdings moved further in the same block; conservation (C11) still covers it
	}
	for _, c := range pv.Locking {
		hold := new(big.Int).Set(c.Amount.BigInt())
		for _, fraction := range fractions {
			frac, ok := new(big.Rat).SetString(fraction)
			if !ok {
				return
			}
			cut := new(big.Int).Mul(hold, frac.Num())
			cut.Div(cut, frac.Denom())
			if cut.Sign() == 0 {
				cut.Set(hold)
			}
			hold.Sub(hold, cut)
		}
		want := hold
		if l := locks[c.Denom]; l != nil {
			want = new(big.Int).Add(want, l)
		}
		got := cv.Locking.AmountOf(c.Denom).BigInt()
		if got.Cmp(want) != 0 {
			w.violate("C14", "slash-amount", "slash-"+why, "height %d: validator %x held %s %s, %s slash of %v should leave %s, has %s", b.Height, []byte(a)[:4], c.Amount, c.Denom, why, fractions, want, got)
		}
	}
}

// window model: misses per signing window for active validators
type windowState struct {
	offset, missed int64
	tripped        bool
}

var windows = map[*Models]map[string]*windowState{}

func (m *Models) window(a string) *windowState {
	if windows[m] == nil {
		return nil
	}
	return windows[m][a]
}

// windowStep advances the reference signing windows with this block's votes. The reading of the
// window taken from the unchanged tree: a miss is counted, the offence is decided (missed >= max),
// then the offset advances and both counters reset when the window is full.
func (m *Models) windowStep(bi *BlockInfo) {
	if windows[m] == nil {
		windows[m] = map[string]*windowState{}
		if len(windows) > 4 {
			for k := range windows {
				if k != m {
					delete(windows, k)
				}
			}
		}
	}
	ws := windows[m]
	w := m.w
	b := bi.B
	params := m.Cur.Locking.Params
	for _, v := range b.LastCommit.Votes {
		a := string(v.Validator.Address)
		var pv *lockingtypes.Validator
		if m.Prev != nil {
			pv = m.Prev.Vals[a]
		}
		cv := m.Cur.Vals[a]
		if pv == nil || cv == nil {
			continue
		}
		st := ws[a]
		if st == nil {
			// first sight (a genesis validator): the window starts where the genesis state says
			st = &windowState{offset: pv.SigningInfo.Offset, missed: pv.SigningInfo.Missed}
			ws[a] = st
		}
		st.tripped = false
		if pv.Status != lockingtypes.Active {
			// not counted
			if cv.SigningInfo.Missed != pv.SigningInfo.Missed && cv.Status == pv.Status {
				w.violate("C14", "inactive-counted", "inactive-counted", "height %d: non-active validator %x had its missed counter changed %d -> %d", b.Height, []byte(a)[:4], pv.SigningInfo.Missed, cv.SigningInfo.Missed)
			}
			continue
		}
		// the model keeps its own counters from activation on; it does not read the chain's
		if v.BlockIdFlag == 1 { // absent
			st.missed++
		}
		down := st.missed >= params.MaxMissedPerWindow
		st.tripped = down
		st.offset++
		if st.offset >= params.SignedBlocksWindow {
			st.offset, st.missed = 0, 0
			w.probe("signing-window-rolled")
		}
		tomb := cv.Status == lockingtypes.Tombstoned
		if down && !tomb && cv.Status == lockingtypes.Active {
			w.violate("C14", "offence-not-punished", "not-jailed", "height %d: validator %x reached %d misses (max %d) and is still active", b.Height, []byte(a)[:4], params.MaxMissedPerWindow, params.MaxMissedPerWindow)
		}
	}
	// a validator promoted to active at the end of this block starts a clean window
	for a, cv := range m.Cur.Vals {
		if cv.Status != lockingtypes.Active {
			continue
		}
		var pv *lockingtypes.Validator
		if m.Prev != nil {
			pv = m.Prev.Vals[a]
		}
		if pv == nil || pv.Status != lockingtypes.Active {
			ws[a] = &windowState{}
		} else if st := ws[a]; st != nil && (st.offset != cv.SigningInfo.Offset || st.missed != cv.SigningInfo.Missed) {
			w.probe("signing-counters-differ-from-model")
		}
	}
	_ = sort.Strings
}

func simEpoch() time.Time { return simEpochVal }

func shapeOfLog(log string) string {
	for _, k := range []string{"dequeue mismatched", "consensus proposer mismatched", "incorrect parent block", "invalid beacon root", "invalid execution requests", "out of gas"} {
		if strings.Contains(log, k) {
			return k
		}
	}
	if len(log) > 50 {
		return log[:50]
	}
	return log
}

package main

import (
	"time"

	"github.com/ethereum/go-ethereum/common"
	"github.com/ethereum/go-ethereum/core/types/goattypes"
)

type TokenCfg struct {
	Addr      string `json:"addr"`
	Weight    uint64 `json:"weight"`
	Threshold string `json:"threshold"`
}

// Config is everything a run is parameterised by (drawn per run, recorded in the replay file).
type Config struct {
	Profile       string     `json:"profile"`
	Heights       int        `json:"heights"`
	Nodes         int        `json:"nodes"`      // replica-backed genesis validators
	ExtraVals     int        `json:"extra_vals"` // genesis validators without a replica
	Voters        int        `json:"voters"`     // relayer voters besides the proposer
	MaxValidators int64      `json:"max_validators"`
	Tokens        []TokenCfg `json:"tokens"`

	SignedBlocksWindow int64  `json:"signed_blocks_window"`
	MaxMissed          int64  `json:"max_missed"`
	SlashDowntime      string `json:"slash_downtime"`
	SlashDouble        string `json:"slash_double"`
	UnlockSec          int64  `json:"unlock_sec"`
	ExitSec            int64  `json:"exit_sec"`
	JailSec            int64  `json:"jail_sec"`
	HalvingInterval    int64  `json:"halving_interval"`
	InitialReward      int64  `json:"initial_reward"`
	RewardRemain       string `json:"reward_remain"`

	ElectingSec      int64 `json:"electing_sec"`
	AcceptTimeoutSec int64 `json:"accept_timeout_sec"`

	Network       string `json:"network"`
	KeySchnorr    bool   `json:"key_schnorr"`
	DepositV1     bool   `json:"deposit_v1"`
	MinDeposit    uint64 `json:"min_deposit"`
	TaxRate       uint64 `json:"tax_rate"`
	TaxMax        uint64 `json:"tax_max"`
	Magic         string `json:"magic"`
	Confirmations uint64 `json:"confirmations"`
	BtcStartTip   uint64 `json:"btc_start_tip"`

	EvidenceMaxAgeBlocks int64 `json:"evidence_max_age_blocks"`
	EvidenceMaxAgeSec    int64 `json:"evidence_max_age_sec"`
	BlockMs              int64 `json:"block_ms"`

	IAVLCache       []int  `json:"iavl_cache"`
	FastNodeOff     []bool `json:"fastnode_off"`
	InterBlockCache []bool `json:"interblock_cache"`
	ClockSkewMs     []int  `json:"clock_skew_ms"`
	NaturalMapOrder bool   `json:"natural_map_order"`
	ELMaxOps        int    `json:"el_max_ops,omitempty"`  // user operations per execution block (0: 12)
	LastPunish      bool   `json:"last_punish,omitempty"` // the run ends with double-sign evidence against every member of the set in one block
	LastExit        bool   `json:"last_exit,omitempty"`   // the run ends with every validator unlocking everything (can the set empty itself?)
	Bursts          bool   `json:"bursts,omitempty"`      // generators may emit bursts larger than the per-block hand-over caps

	FaultFree bool               `json:"fault_free"`
	Weights   map[string]float64 `json:"weights,omitempty"` // step-kind weights of the profile (after swarm selection)
}

var (
	tokNative = common.Address{}
	tokGoat   = goattypes.GoatTokenContract
	tokThird  = common.HexToAddress("0x00000000000000000000000000000000000000a3")
)

func tokHex(a common.Address) string { return a.Hex() }

func (c *Config) blockDur() time.Duration { return time.Duration(c.BlockMs) * time.Millisecond }

package main

// btcsim: a simulated Bitcoin chain. Blocks of real wire.MsgTx (coinbase first), a reference
// Merkle-tree builder written from the Bitcoin rule (duplicate the last node on odd levels),
// 80-byte headers with the root at [36:68].

import (
	"bytes"
	"encoding/binary"
	"fmt"

	"github.com/btcsuite/btcd/btcutil"
	"github.com/btcsuite/btcd/chaincfg"
	"github.com/btcsuite/btcd/chaincfg/chainhash"
	"github.com/btcsuite/btcd/txscript"
	"github.com/btcsuite/btcd/wire"
)

type BtcTx struct {
	Msg  *wire.MsgTx
	Raw  []byte // serialization without witness
	Txid []byte // double SHA-256 of Raw (internal byte order)
	Note string
}

func newBtcTx(m *wire.MsgTx, note string) *BtcTx {
	var buf bytes.Buffer
	if err := m.SerializeNoWitness(&buf); err != nil {
		panic(harnessError{err.Error()})
	}
	return &BtcTx{Msg: m, Raw: buf.Bytes(), Txid: dsha(buf.Bytes()), Note: note}
}

type BtcBlock struct {
	Height uint64
	Header []byte
	Hash   []byte
	Txs    []*BtcTx
	levels [][][]byte // merkle tree levels, leaves first
}

type BtcSim struct {
	w       *World
	Net     *chaincfg.Params
	Blocks  map[uint64]*BtcBlock
	tip     uint64
	Pending []*BtcTx
	nonce   uint64

	NextCoinbase *BtcTx
	Deposits     []*DepositFact
	Payouts      []*PayoutFact
}

var btcNets = map[string]*chaincfg.Params{
	"mainnet": &chaincfg.MainNetParams, "testnet3": &chaincfg.TestNet3Params, "signet": &chaincfg.SigNetParams, "regtest": &chaincfg.RegressionNetParams,
}

func newBtcSim(w *World) *BtcSim {
	b := &BtcSim{w: w, Net: btcNets[w.Cfg.Network], Blocks: map[uint64]*BtcBlock{}, tip: w.Cfg.BtcStartTip - 1}
	if b.Net == nil {
		panic(harnessError{"unknown bitcoin network " + w.Cfg.Network})
	}
	b.mine(nil)
	return b
}

func (b *BtcSim) Tip() uint64 { return b.tip }

func merkleLevels(leaves [][]byte) [][][]byte {
	levels := [][][]byte{leaves}
	cur := leaves
	for len(cur) > 1 {
		var next [][]byte
		for i := 0; i < len(cur); i += 2 {
			l := cur[i]
			r := l
			if i+1 < len(cur) {
				r = cur[i+1]
			}
			next = append(next, dsha(append(append([]byte{}, l...), r...)))
		}
		levels = append(levels, next)
		cur = next
	}
	return levels
}

func (b *BtcSim) coinbase(script []byte, value int64) *BtcTx {
	b.nonce++
	m := wire.NewMsgTx(2)
	var h chainhash.Hash
	m.AddTxIn(&wire.TxIn{PreviousOutPoint: wire.OutPoint{Hash: h, Index: 0xffffffff}, SignatureScript: append([]byte{8}, u64le(b.nonce)...), Sequence: 0xffffffff})
	if script == nil {
		script = []byte{txscript.OP_TRUE}
	}
	m.AddTxOut(&wire.TxOut{Value: value, PkScript: script})
	// pad so that it is never 64 bytes and always above the minimum deposit tx size
	m.AddTxOut(&wire.TxOut{Value: 0, PkScript: append([]byte{txscript.OP_RETURN, 32}, sha(u64le(b.nonce))...)})
	return newBtcTx(m, "coinbase")
}

// mine appends a block with the pending transactions (coinbase first). cbScript, if set, is what
// the coinbase pays (coinbase deposits).
func (b *BtcSim) mine(cb *BtcTx) *BtcBlock {
	if cb == nil {
		cb = b.coinbase(nil, 50_0000_0000)
	}
	h := b.tip + 1
	blk := &BtcBlock{Height: h, Txs: append([]*BtcTx{cb}, b.Pending...)}
	b.Pending = nil
	leaves := make([][]byte, len(blk.Txs))
	for i, t := range blk.Txs {
		leaves[i] = t.Txid
	}
	blk.levels = merkleLevels(leaves)
	root := blk.levels[len(blk.levels)-1][0]
	hdr := make([]byte, 80)
	binary.LittleEndian.PutUint32(hdr[0:4], 0x20000000)
	if p := b.Blocks[b.tip]; p != nil {
		copy(hdr[4:36], p.Hash)
	}
	copy(hdr[36:68], root)
	binary.LittleEndian.PutUint32(hdr[68:72], uint32(1700000000+h*600))
	binary.LittleEndian.PutUint32(hdr[72:76], 0x207fffff)
	binary.LittleEndian.PutUint32(hdr[76:80], uint32(b.nonce))
	blk.Header = hdr
	blk.Hash = dsha(hdr)
	b.Blocks[h] = blk
	b.tip = h
	return blk
}

// proof returns the genuine Merkle path of transaction idx.
func (blk *BtcBlock) proof(idx int) []byte {
	var out []byte
	i := idx
	for lvl := 0; lvl < len(blk.levels)-1; lvl++ {
		nodes := blk.levels[lvl]
		sib := i ^ 1
		if sib >= len(nodes) {
			sib = i
		}
		out = append(out, nodes[sib]...)
		i >>= 1
	}
	return out
}

func (blk *BtcBlock) depth() int { return len(blk.levels) - 1 }

// aliasIndex returns another position under which transaction idx verifies with its genuine path
// (Bitcoin pairs the last node of an odd-sized level with itself, so flipping that level's bit
// changes nothing), or -1 when there is none.
func (blk *BtcBlock) aliasIndex(idx int) int {
	i := idx
	for lvl := 0; lvl < len(blk.levels)-1; lvl++ {
		if i^1 >= len(blk.levels[lvl]) {
			return idx ^ (1 << uint(lvl))
		}
		i >>= 1
	}
	return -1
}

func (blk *BtcBlock) indexOf(txid []byte) int {
	for i, t := range blk.Txs {
		if bytes.Equal(t.Txid, txid) {
			return i
		}
	}
	return -1
}

// refMerkleVerify is the reference verifier used by the oracles: position-binding.
func refMerkleVerify(leaf, root, path []byte, pos uint32) bool {
	if len(leaf) != 32 || len(root) != 32 || len(path)%32 != 0 {
		return false
	}
	n := len(path) / 32
	if n < 32 && pos>>uint(n) != 0 {
		return false
	}
	cur := leaf
	for i := 0; i < n; i++ {
		sib := path[i*32 : i*32+32]
		if pos&1 == 0 {
			cur = dsha(append(append([]byte{}, cur...), sib...))
		} else {
			cur = dsha(append(append([]byte{}, sib...), cur...))
		}
		pos >>= 1
	}
	return bytes.Equal(cur, root)
}

// spend builds a transaction with one fake input and the given outputs.
func (b *BtcSim) spend(outs []*wire.TxOut, note string) *BtcTx {
	b.nonce++
	m := wire.NewMsgTx(2)
	var h chainhash.Hash
	copy(h[:], sha([]byte("prevout"), u64le(b.nonce)))
	m.AddTxIn(&wire.TxIn{PreviousOutPoint: wire.OutPoint{Hash: h, Index: uint32(b.nonce % 3)}, Sequence: 0xfffffffd})
	for _, o := range outs {
		m.AddTxOut(o)
	}
	return newBtcTx(m, note)
}

// addressPayable is the oracle's own reading of "the address can be decoded": a standard
// address of the configured network that is not pay-to-pubkey.
func (b *BtcSim) addressPayable(addr string) bool {
	_, ok := b.payScript(addr)
	return ok
}

func (b *BtcSim) payScript(addr string) ([]byte, bool) {
	a, err := btcutil.DecodeAddress(addr, b.Net)
	if err != nil || !a.IsForNet(b.Net) {
		return nil, false
	}
	if _, isPK := a.(*btcutil.AddressPubKey); isPK {
		return nil, false
	}
	s, err := txscript.PayToAddrScript(a)
	if err != nil {
		return nil, false
	}
	return s, true
}

// userAddress makes a withdrawal address of the requested kind.
func (b *BtcSim) userAddress(r *Rand, kind string) string {
	key := newSecpKey(r.Uint64(), "useraddr")
	h160 := btcutil.Hash160(key.Pub)
	net := b.Net
	other := &chaincfg.MainNetParams
	if net == other {
		other = &chaincfg.TestNet3Params
	}
	mk := func(a btcutil.Address, err error) string {
		if err != nil {
			panic(harnessError{err.Error()})
		}
		return a.EncodeAddress()
	}
	switch kind {
	case "p2pkh":
		return mk(btcutil.NewAddressPubKeyHash(h160, net))
	case "p2sh":
		return mk(btcutil.NewAddressScriptHashFromHash(h160, net))
	case "p2wpkh":
		return mk(btcutil.NewAddressWitnessPubKeyHash(h160, net))
	case "p2wsh":
		return mk(btcutil.NewAddressWitnessScriptHash(sha(key.Pub), net))
	case "p2tr":
		return mk(btcutil.NewAddressTaproot(key.SchnorrPub(), net))
	case "p2pk":
		a, err := btcutil.NewAddressPubKey(key.Pub, net)
		if err != nil {
			panic(harnessError{err.Error()})
		}
		return a.String()
	case "foreign":
		return mk(btcutil.NewAddressWitnessPubKeyHash(h160, other))
	case "foreign-legacy":
		return mk(btcutil.NewAddressPubKeyHash(h160, other))
	case "padded":
		// a valid address of this network wrapped in white space (the contract's receiver field is a free-form string)
		a := mk(btcutil.NewAddressWitnessPubKeyHash(h160, net))
		return pick(r, []string{" " + a, a + " ", a + "\n", "\t" + a, " " + a + " "})
	case "garbage":
		return fmt.Sprintf("bc1q%x", r.Bytes(9))
	case "empty":
		return ""
	case "long":
		return string(bytes.Repeat([]byte("q"), 200))
	}
	return mk(btcutil.NewAddressWitnessPubKeyHash(h160, net))
}

var payableKinds = []string{"p2pkh", "p2sh", "p2wpkh", "p2wsh", "p2tr"}
var unpayableKinds = []string{"p2pk", "foreign", "foreign-legacy", "garbage", "empty", "long", "padded", "padded"}

package main

import (
	"bytes"
	"encoding/json"
	"fmt"
	"math/big"
	"sort"
	"time"

	"github.com/ethereum/go-ethereum/common"
)

// Step is one recorded decision of a run. Replay interprets recorded steps instead of drawing
// them; a step that is not applicable in the world it meets is skipped.
type Step struct {
	I int             `json:"i"`
	K string          `json:"k"`
	A json.RawMessage `json:"a"`
	S uint64          `json:"s"`
}

type Plan struct {
	V         int        `json:"v"`
	Property  string     `json:"property"`
	Seed      uint64     `json:"seed"`
	Config    Config     `json:"config"`
	Steps     []Step     `json:"steps"`
	Violation *Violation `json:"violation,omitempty"`
	Race      bool       `json:"race,omitempty"`
}

func mkStep(kind string, args any, seed uint64) Step {
	b, err := json.Marshal(args)
	if err != nil {
		panic(harnessError{err.Error()})
	}
	return Step{K: kind, A: b, S: seed}
}

// apply executes one step and returns a short outcome label (part of the run fingerprint).
func (w *World) apply(st Step) string {
	w.StepNo = st.I
	w.Stats.Steps[st.K]++
	out := w.applyInner(st)
	w.tr("step", st.K, out)
	w.Stats.StepOutcomes[st.K+"="+out]++
	return out
}

func (w *World) applyInner(st Step) string {
	switch st.K {
	case "block":
		var a BlockArgs
		if err := json.Unmarshal(st.A, &a); err != nil {
			return "bad-args"
		}
		if w.Cmt.Halted != "" {
			return "halted"
		}
		if w.Cmt.produceBlock(&a) {
			return "decided"
		}
		return "undecided"
	case "el.ops":
		var ops []*ELOp
		if err := json.Unmarshal(st.A, &ops); err != nil {
			return "bad-args"
		}
		for _, o := range ops {
			w.EL.addOp(o)
			w.Stats.Steps["el."+o.Kind]++
		}
		return "queued"
	}
	if out, ok := w.applyRelayerStep(st); ok {
		return out
	}
	if out, ok := w.applyProbeStep(st); ok {
		return out
	}
	return "unknown-step"
}

// ---------------------------------------------------------------------------------------------
// generation

type genState struct {
	absentLeft  map[int]int // validator index in the voting set -> blocks it stays absent
	nextVal     int
	created     map[common.Address]bool
	evidenceFor int
	trickleFat  bool
	trickle     int // > 0: half-steps left of an "one small unlock per block" series (then a time jump)
}

func (w *World) gen() *genState {
	if w.G == nil {
		w.G = &genState{absentLeft: map[int]int{}, created: map[common.Address]bool{}}
		w.G.nextVal = len(w.Vals)
		for _, v := range w.Vals {
			w.G.created[v.Addr()] = true
		}
	}
	return w.G
}

func (w *World) weight(kind string) float64 { return w.Cfg.Weights[kind] }

// nextStep draws the next step of an online-generated run.
// trickleStep: one small unlock in each of 9-14 consecutive blocks, so that as many maturity keys
// pile up in the time queue, then a jump of block time past all of them (one sweep meets them all).
func (w *World) trickleStep(r *Rand) (Step, bool) {
	g := w.gen()
	sub := r.Uint64()
	if g.trickle == 0 {
		if !w.Cfg.Bursts || w.Cfg.FaultFree || w.weight("el.locking") == 0 || w.view() == nil || !r.Chance(0.012) {
			return Step{}, false
		}
		g.trickle = 2 * (9 + r.Intn(6))
		g.trickleFat = r.Chance(0.4)
	}
	g.trickle--
	if g.trickle == 0 {
		a := &BlockArgs{DtMs: (w.Cfg.ExitSec + w.Cfg.UnlockSec + 7) * 1000}
		w.fault("bft-time-jump")
		w.probe("many-maturity-keys-then-time-jump")
		return mkStep("block", a, sub), true
	}
	if g.trickle%2 == 0 {
		return mkStep("block", &BlockArgs{DtMs: w.Cfg.BlockMs/2 + r.Int63n(w.Cfg.BlockMs+1)}, sub), true
	}
	st := w.elHeadState()
	for _, v := range w.createdVals(st) {
		if v == w.Vals[0].Addr() {
			continue
		}
		for _, t := range w.tokensOf(st) {
			if ev := st.Vals[v]; ev != nil && ev.Locked[t.Hex()] != nil && ev.Locked[t.Hex()].Cmp(big.NewInt(1_000_000)) > 0 {
				ops := []*ELOp{{Kind: "unlock", Val: v.Hex(), Token: t.Hex(), Amount: fmt.Sprint(1 + r.Intn(1000)), Rcpt: pick(r, w.Users).Hex(), Guards: true}}
				if g.trickleFat {
					// a dozen or more per block: dozens of unlocks spread over many maturity keys
					for j, n := 0, 11+r.Intn(5); j < n; j++ {
						ops = append(ops, &ELOp{Kind: "unlock", Val: v.Hex(), Token: t.Hex(), Amount: fmt.Sprint(1 + r.Intn(1000)), Rcpt: pick(r, w.Users).Hex(), Guards: true})
					}
				}
				return mkStep("el.ops", ops, sub), true
			}
		}
	}
	// nobody to unlock from (the anchor excepted): a validator with funds first
	g.trickle = 0
	return Step{}, false
}

func (w *World) nextStep(r *Rand) Step {
	if st, ok := w.trickleStep(r); ok {
		return st
	}
	type cand struct {
		k string
		w float64
	}
	var cs []cand
	total := 0.0
	kinds := make([]string, 0, len(w.Cfg.Weights))
	for k := range w.Cfg.Weights {
		kinds = append(kinds, k)
	}
	sort.Strings(kinds)
	for _, k := range kinds {
		if wt := w.Cfg.Weights[k]; wt > 0 && !isModifier(k) {
			cs = append(cs, cand{k, wt})
			total += wt
		}
	}
	x := r.Float64() * total
	kind := "block"
	for _, c := range cs {
		if x < c.w {
			kind = c.k
			break
		}
		x -= c.w
	}
	sub := r.Uint64()
	sr := newRand(sub, "step")
	var st Step
	switch kind {
	case "block":
		st = mkStep("block", w.genBlock(sr), sub)
	case "el.locking":
		st = mkStep("el.ops", w.genLockingOps(sr), sub)
	case "el.adversarial":
		st = mkStep("el.ops", w.genAdversarialOps(sr), sub)
	default:
		var ok bool
		if st, ok = w.genRelayerStep(kind, sr, sub); !ok {
			if st, ok = w.genProbeStep(kind, sr, sub); !ok {
				st = mkStep("block", w.genBlock(sr), sub)
			}
		}
	}
	return st
}

// modifiers are weights that tune block generation instead of naming a step kind
func isModifier(k string) bool {
	switch k {
	case "p.absent", "p.evidence", "p.round", "p.engine", "p.crash", "p.timejump", "p.reexec", "p.skew", "p.byz", "p.elrestart", "p.junk", "p.finfault", "p.shadowdiff", "p.multisched", "p.timecollide":
		return true
	}
	return false
}

func (w *World) genBlock(r *Rand) *BlockArgs {
	g := w.gen()
	cfg := &w.Cfg
	a := &BlockArgs{}
	base := cfg.BlockMs
	a.DtMs = base/2 + r.Int63n(base+1)
	if !cfg.FaultFree && r.Chance(w.weight("p.timejump")) {
		// jump across unlock / jail / electing periods
		mult := []int64{5, 15, 40, 120}[r.Intn(4)]
		a.DtMs = base * mult
		w.fault("bft-time-jump")
	}
	if d := time.Duration(cfg.ExitSec-cfg.UnlockSec) * time.Second; d > 0 && r.Chance(w.weight("p.timecollide")) {
		// a block exactly (exit period - unlock period) after an earlier one: an ordinary unlock
		// requested now matures at the very instant an exit requested then does (one queue key)
		var gaps []int64
		for h := w.Cmt.Height; h > 0 && h > w.Cmt.Height-40; h-- {
			if blk := w.Cmt.Blocks[h]; blk != nil {
				gap := blk.Time.Add(d).Sub(w.Cmt.Time).Milliseconds()
				if gap >= 200 && gap <= 30*base {
					gaps = append(gaps, gap)
				}
			}
		}
		if len(gaps) > 0 {
			a.DtMs = pick(r, gaps)
			w.probe("block-time-collides-with-exit-maturity")
		}
	}
	if cfg.FaultFree {
		return a
	}
	// absences: streaks, so that windows are crossed
	anchor := w.Vals[0].Key.CmtPriv().PubKey().Address()
	nvals := len(w.Cmt.LastVals.Validators)
	if nvals > 1 {
		if r.Chance(w.weight("p.absent")) {
			g.absentLeft[r.Intn(nvals)] = 1 + r.Intn(int(cfg.MaxMissed)+2)
		}
		keys := make([]int, 0, len(g.absentLeft))
		for v := range g.absentLeft {
			keys = append(keys, v)
		}
		sort.Ints(keys)
		for _, v := range keys {
			left := g.absentLeft[v]
			// the anchor validator (node 0) is never absent: an empty validator set is outside what CometBFT can run
			if left > 0 && v < nvals && !bytes.Equal(w.Cmt.LastVals.Validators[v].Address, anchor) {
				a.Absent = append(a.Absent, v)
				g.absentLeft[v] = left - 1
			} else {
				delete(g.absentLeft, v)
			}
		}
		sort.Ints(a.Absent)
	}
	if r.Chance(w.weight("p.evidence")) && len(w.Cmt.Vals.Validators) > 1 {
		e := EvidenceSpec{Val: r.Intn(len(w.Cmt.Vals.Validators)), Light: r.Chance(0.3)}
		if bytes.Equal(w.Cmt.Vals.Validators[e.Val].Address, anchor) {
			e.Val = (e.Val + 1) % len(w.Cmt.Vals.Validators)
		}
		switch r.Intn(4) {
		case 0: // fresh
			e.AgeBlocks, e.AgeSec = 1, 2
		case 1: // old by time only
			e.AgeBlocks, e.AgeSec = 1, cfg.EvidenceMaxAgeSec+5
		case 2: // old by blocks only
			e.AgeBlocks, e.AgeSec = cfg.EvidenceMaxAgeBlocks+2, 1
		case 3: // old by both
			e.AgeBlocks, e.AgeSec = cfg.EvidenceMaxAgeBlocks+2, cfg.EvidenceMaxAgeSec+5
		}
		// sometimes against a validator that has just left the set (still within the evidence age)
		if len(w.Cmt.Recent) > 0 && r.Chance(0.35) {
			var addrs []string
			for a := range w.Cmt.Recent {
				if a != string(anchor) {
					addrs = append(addrs, a)
				}
			}
			sort.Strings(addrs)
			if len(addrs) > 0 {
				a0 := pick(r, addrs)
				back := w.Cmt.Height + 1 - w.Cmt.Recent[a0]
				if back < 0 {
					back = 0
				}
				e.Addr = hx([]byte(a0))
				e.AgeBlocks = back + 1 + r.Int63n(2)
				e.AgeSec = 2
			}
		}
		a.Evidence = append(a.Evidence, e)
	}
	if r.Chance(w.weight("p.round")) {
		n := 1 + r.Intn(2)
		for i := 0; i < n; i++ {
			a.Rounds = append(a.Rounds, RoundSpec{Kind: pick(r, []string{"proposer-down", "drop", "drop", "crash-proposer"})})
		}
	}
	if len(w.ProbeTxs) > 0 {
		a.Rounds = append(a.Rounds, RoundSpec{Kind: "byz", Mut: "append-probe", Forced: true})
	}
	if r.Chance(w.weight("p.byz")) {
		mut := pick(r, byzMutations)
		if cfg.Profile == "admission" {
			// the mutations that concern which transactions may sit in a block
			mut = pick(r, []string{"with-relayer-msg", "second-block-msg", "two-msgs", "foreign-msg-tx", "non-proposer-relayer-tx", "block-msg-inside-relayer-tx", "block-msg-inside-relayer-tx",
				"memo", "timeout-height", "bad-sig", "swap-first", "dup-first", "garbage-first", "too-many"})
		}
		a.Rounds = append(a.Rounds, RoundSpec{Kind: "byz", Mut: mut, Forced: r.Chance(0.5)})
	}
	if r.Chance(w.weight("p.junk")) {
		rs := RoundSpec{Kind: "honest"}
		n := 1 + r.Intn(20)
		if r.Chance(0.3) {
			// a flood of valid transactions: more than fit under the cap
			n = 14 + r.Intn(12)
			for i := 0; i < n; i++ {
				rs.Junk = append(rs.Junk, "valid-empty-vote")
			}
			n = r.Intn(4)
		}
		for i := 0; i < n; i++ {
			rs.Junk = append(rs.Junk, pick(r, junkKinds))
		}
		a.Rounds = append(a.Rounds, rs)
	}
	if r.Chance(w.weight("p.engine")) {
		// faults while proposing / checking in the deciding round (or an extra one)
		rs := RoundSpec{Kind: "honest"}
		n := 1 + r.Intn(2)
		for i := 0; i < n; i++ {
			call := pick(r, []string{"fcuBuild", "getPayload", "newPayload"})
			kinds := map[string][]string{
				"fcuBuild":   {"error", "timeout", "invalid", "invalid-noerr", "syncing", "accepted", "nopayloadid", "stall", "slow"},
				"getPayload": {"error", "timeout", "unknownpayload", "stall", "slow"},
				"newPayload": {"error", "invalid", "invalid-noerr", "syncing", "accepted", "stall", "slow"},
			}[call]
			rs.Faults = append(rs.Faults, &NodeFault{Node: r.Intn(cfg.Nodes), Call: call, Kind: pick(r, kinds)})
		}
		a.Rounds = append(a.Rounds, rs)
	}
	if r.Chance(w.weight("p.finfault")) {
		call := pick(r, []string{"newPayload", "fcuHead"})
		kinds := map[string][]string{
			"newPayload": {"error", "invalid", "invalid-noerr", "syncing", "accepted", "stall", "slow"},
			"fcuHead":    {"error", "invalid", "invalid-noerr", "syncing", "accepted", "stall", "slow"},
		}[call]
		a.FinFaults = append(a.FinFaults, &NodeFault{Node: r.Intn(cfg.Nodes), Call: call, Kind: pick(r, kinds)})
	}
	if r.Chance(w.weight("p.crash")) {
		cs := CrashSpec{Node: r.Intn(cfg.Nodes), Point: pick(r, []string{"pre-finalize", "post-finalize", "post-finalize", "in-commit", "post-commit", "disk-error"}), Down: 1 + r.Intn(3)}
		if cs.Point == "in-commit" || cs.Point == "disk-error" {
			cs.Tear = 1 + r.Intn(8)
		}
		a.Crashes = append(a.Crashes, cs)
	}
	if r.Chance(w.weight("p.reexec")) {
		a.Reexec = 1 + r.Intn(cfg.Nodes)
	}
	if r.Chance(w.weight("p.shadowdiff")) {
		a.ShadowDiff = 1 + r.Intn(cfg.Nodes)
	}
	if r.Chance(w.weight("p.multisched")) {
		a.MultiSched = 2 + r.Intn(7)
	}
	if r.Chance(w.weight("p.skew")) {
		a.SkewMs = map[string]int{fmt.Sprint(r.Intn(cfg.Nodes)): []int{-3000, -1000, 0, 1000, 2500, 10000}[r.Intn(6)]}
	}
	if r.Chance(w.weight("p.elrestart")) {
		a.ELRestart = []int{r.Intn(cfg.Nodes)}
	}
	return a
}

// elHeadState is the contract state users see (post-state of the canonical head).
func (w *World) elHeadState() *ELState {
	if b := w.EL.Blocks[w.M.Head]; b != nil {
		return b.State
	}
	return w.EL.Genesis.State
}

func e18(n int64) *big.Int { return weiOf(n) }

func (w *World) amountFor(r *Rand, thr *big.Int) *big.Int {
	switch r.Intn(10) {
	case 0:
		return big.NewInt(int64(1 + r.Intn(1000))) // dust: truncates to zero power
	case 1:
		return new(big.Int).Sub(e18(1), big.NewInt(1))
	case 2:
		if thr != nil && thr.Sign() > 0 && thr.Cmp(e18(1000)) <= 0 {
			return new(big.Int).Set(thr)
		}
	}
	return new(big.Int).Add(e18(int64(1+r.Intn(60))), big.NewInt(int64(r.Intn(1000000))))
}

func (w *World) createdVals(st *ELState) []common.Address {
	var out []common.Address
	for a := range st.Vals {
		out = append(out, a)
	}
	sort.Slice(out, func(i, j int) bool { return string(out[i][:]) < string(out[j][:]) })
	return out
}

func (w *World) tokensOf(st *ELState) []common.Address {
	var out []common.Address
	for a := range st.Tokens {
		out = append(out, a)
	}
	sort.Slice(out, func(i, j int) bool { return string(out[i][:]) < string(out[j][:]) })
	return out
}

// genExitAllOps: every validator the contract knows unlocks all it has locked, of every token.
func (w *World) genExitAllOps() []*ELOp {
	st := w.elHeadState()
	var ops []*ELOp
	for _, v := range w.createdVals(st) {
		ev := st.Vals[v]
		if ev == nil {
			continue
		}
		for _, t := range w.tokensOf(st) {
			if l := ev.Locked[t.Hex()]; l != nil && l.Sign() > 0 {
				ops = append(ops, &ELOp{Kind: "unlock", Val: v.Hex(), Token: t.Hex(), Amount: l.String(), Rcpt: w.Users[0].Hex(), Guards: true})
			}
		}
	}
	w.probe("every-validator-exits")
	return ops
}

// genLockingOps draws operations a well-behaved execution layer could emit for the locking contract.
func (w *World) genLockingOps(r *Rand) []*ELOp {
	g := w.gen()
	st := w.elHeadState()
	vals := w.createdVals(st)
	toks := w.tokensOf(st)
	fee := func() string { return fmt.Sprint(r.Intn(3) * (1 + r.Intn(5000000))) }
	var ops []*ELOp
	if w.Cfg.Bursts && len(vals) > 0 && r.Chance(0.08) {
		// a burst larger than the per-block hand-over caps (16 rewards, 16 unlocks)
		m := 17 + r.Intn(30)
		if r.Chance(0.5) {
			for j := 0; j < m; j++ {
				ops = append(ops, &ELOp{Kind: "claim", Val: pick(r, vals).Hex(), Rcpt: pick(r, w.Users).Hex(), Guards: true})
			}
			return ops
		}
		if len(toks) > 0 {
			for j := 0; j < m; j++ {
				v, t := pick(r, vals), pick(r, toks)
				if v == w.Vals[0].Addr() {
					continue
				}
				if ev := st.Vals[v]; ev == nil || ev.Locked[t.Hex()] == nil || ev.Locked[t.Hex()].Cmp(big.NewInt(100000)) < 0 {
					continue
				}
				ops = append(ops, &ELOp{Kind: "unlock", Val: v.Hex(), Token: t.Hex(), Amount: fmt.Sprint(1 + r.Intn(1000)), Rcpt: pick(r, w.Users).Hex(), Guards: true})
			}
			if len(ops) > 0 {
				return ops
			}
		}
	}
	n := 1 + r.Intn(3)
	for i := 0; i < n; i++ {
		switch k := r.Intn(100); {
		case k < 14: // create a validator with the thresholds locked, as the contract does
			idx := g.nextVal
			g.nextVal++
			key := newSecpKey(w.Seed, "val", idx)
			va := &ValActor{Idx: idx, Key: key, Node: -1}
			pub := key.Uncompressed64()
			ops = append(ops, &ELOp{Kind: "create", Val: va.Addr().Hex(), Pub: hx(pub[:]), Guards: true, Fee: fee()})
			for _, t := range toks {
				amt := new(big.Int).Set(st.Tokens[t].Threshold)
				if amt.Cmp(e18(1000)) > 0 {
					amt = e18(1000) // a threshold set by a hostile request list; nobody can lock that
				}
				if r.Chance(0.6) {
					amt.Add(amt, w.amountFor(r, nil))
				}
				if amt.Sign() > 0 {
					ops = append(ops, &ELOp{Kind: "lock", Val: va.Addr().Hex(), Token: t.Hex(), Amount: amt.String(), Guards: true})
				}
			}
			vals = append(vals, va.Addr())
			st = st.clone()
			st.Vals[va.Addr()] = &ELValidator{Locked: map[string]*big.Int{}}
		case k < 36 && len(vals) > 0 && len(toks) > 0:
			t := pick(r, toks)
			ops = append(ops, &ELOp{Kind: "lock", Val: pick(r, vals).Hex(), Token: t.Hex(), Amount: w.amountFor(r, st.Tokens[t].Threshold).String(), Guards: true, Fee: fee()})
		case k < 58 && len(vals) > 0 && len(toks) > 0:
			v, t := pick(r, vals), pick(r, toks)
			mode := r.Intn(4)
			if cur := w.M.Cur; cur != nil && r.Chance(0.3) {
				// prefer a validator the consensus layer has slashed: the contract still believes in the
				// full amount, so "everything" asks for more than is held
				var cand [][2]common.Address
				for _, cv := range vals {
					sv, ev := cur.Vals[string(cv.Bytes())], st.Vals[cv]
					if sv == nil || ev == nil || cv == w.Vals[0].Addr() {
						continue
					}
					for _, ct := range toks {
						if l := ev.Locked[ct.Hex()]; l != nil && l.Sign() > 0 && sv.Locking.AmountOf(denomOf(ct)).BigInt().Cmp(l) < 0 {
							cand = append(cand, [2]common.Address{cv, ct})
						}
					}
				}
				if len(cand) > 0 {
					c := pick(r, cand)
					v, t, mode = c[0], c[1], 0
				}
			}
			if v == w.Vals[0].Addr() {
				continue
			}
			have := new(big.Int)
			if ev := st.Vals[v]; ev != nil && ev.Locked[t.Hex()] != nil {
				have = ev.Locked[t.Hex()]
			}
			if have.Sign() == 0 {
				continue
			}
			amt := new(big.Int)
			switch mode {
			case 0:
				amt.Set(have) // everything: exit
			case 1:
				amt.SetInt64(int64(1 + r.Intn(1000)))
			default:
				amt.Div(have, big.NewInt(int64(2+r.Intn(4))))
			}
			if amt.Sign() == 0 || amt.Cmp(have) > 0 {
				amt.Set(have)
			}
			ops = append(ops, &ELOp{Kind: "unlock", Val: v.Hex(), Token: t.Hex(), Amount: amt.String(), Rcpt: pick(r, w.Users).Hex(), Guards: true, Fee: fee()})
		case k < 70 && len(vals) > 0:
			v := pick(r, vals)
			ops = append(ops, &ELOp{Kind: "claim", Val: v.Hex(), Rcpt: pick(r, w.Users).Hex(), Guards: true, Fee: fee()})
			if r.Chance(0.2) { // duplicate claim in the same block
				ops = append(ops, &ELOp{Kind: "claim", Val: v.Hex(), Rcpt: pick(r, w.Users).Hex(), Guards: true})
			}
		case k < 80:
			amt := big.NewInt(int64(r.Intn(1_000_000_000)))
			if r.Chance(0.1) {
				amt = new(big.Int).Lsh(big.NewInt(1), uint(60+r.Intn(140)))
			}
			ops = append(ops, &ELOp{Kind: "grant", Amount: amt.String(), Guards: true, Fee: fee()})
		case k < 88 && len(toks) > 0:
			wts := []uint64{0, 1, 1, 2, 3, 7}
			t := pick(r, toks)
			if r.Chance(0.3) {
				t = tokThird
			}
			wt := pick(r, wts)
			if t == tokGoat && wt == 0 {
				wt = 1 // the anchor validator keeps power through the first token
			}
			ops = append(ops, &ELOp{Kind: "weight", Token: t.Hex(), U1: wt, Guards: true, Fee: fee()})
		case k < 94 && len(toks) > 0:
			thr := []*big.Int{new(big.Int), e18(1), e18(5), e18(30)}
			ops = append(ops, &ELOp{Kind: "threshold", Token: pick(r, toks).Hex(), Amount: pick(r, thr).String(), Guards: true, Fee: fee()})
			if r.Chance(0.35) {
				// a batch of threshold updates in one request list, the last of which repeats the
				// value already in force (a no-op entry after real changes)
				for j := 0; j < 1+r.Intn(2); j++ {
					ops = append(ops, &ELOp{Kind: "threshold", Token: pick(r, toks).Hex(), Amount: pick(r, thr).String(), Guards: true})
				}
				t := pick(r, toks)
				cur := new(big.Int)
				if tk := st.Tokens[t]; tk != nil && tk.Threshold != nil {
					cur.Set(tk.Threshold)
				}
				for _, o := range ops {
					if o.Kind == "threshold" && o.Token == t.Hex() {
						cur, _ = new(big.Int).SetString(o.Amount, 10)
					}
				}
				ops = append(ops, &ELOp{Kind: "threshold", Token: t.Hex(), Amount: cur.String(), Guards: true})
			}
		default:
			ops = append(ops, &ELOp{Kind: "noop", Fee: new(big.Int).Lsh(big.NewInt(1), uint(r.Intn(200))).String(), Guards: true})
		}
	}
	return ops
}

// genAdversarialOps draws request lists a buggy or hostile execution layer could emit
// (guards off): the consensus layer must stay deterministic and must not crash.
func (w *World) genAdversarialOps(r *Rand) []*ELOp {
	st := w.elHeadState()
	vals := w.createdVals(st)
	toks := w.tokensOf(st)
	unknownVal := common.BytesToAddress(sha([]byte("unknown-val"), u64le(r.Uint64()))[:20])
	unknownTok := common.BytesToAddress(sha([]byte("unknown-tok"), u64le(uint64(r.Intn(3))))[:20])
	var ops []*ELOp
	anyVal := func() common.Address {
		if len(vals) > 0 && r.Chance(0.7) {
			if v := pick(r, vals); v != w.Vals[0].Addr() {
				return v
			}
		}
		return unknownVal
	}
	anyTok := func() common.Address {
		if len(toks) > 0 && r.Chance(0.7) {
			return pick(r, toks)
		}
		return unknownTok
	}
	huge := func() *big.Int {
		switch r.Intn(4) {
		case 0:
			return new(big.Int).Sub(new(big.Int).Lsh(big.NewInt(1), 256), big.NewInt(1))
		case 1:
			return new(big.Int).Lsh(big.NewInt(1), uint(100+r.Intn(150)))
		case 2:
			return new(big.Int).Mul(e18(1), new(big.Int).SetUint64(1<<63/8+uint64(r.Intn(1000))))
		}
		return e18(int64(1 + r.Intn(100)))
	}
	n := 1 + r.Intn(4)
	for i := 0; i < n; i++ {
		switch r.Intn(9) {
		case 0, 1: // several locks, some of which cannot succeed: order of processing must not matter
			m := 2 + r.Intn(4)
			for j := 0; j < m; j++ {
				ops = append(ops, &ELOp{Kind: "lock", Val: anyVal().Hex(), Token: anyTok().Hex(), Amount: w.amountFor(r, nil).String()})
			}
		case 2:
			ops = append(ops, &ELOp{Kind: "lock", Val: anyVal().Hex(), Token: anyTok().Hex(), Amount: huge().String()})
		case 3:
			ops = append(ops, &ELOp{Kind: "unlock", Val: anyVal().Hex(), Token: anyTok().Hex(), Amount: huge().String(), Rcpt: pick(r, w.Users).Hex()})
		case 4:
			ops = append(ops, &ELOp{Kind: "claim", Val: anyVal().Hex(), Rcpt: pick(r, w.Users).Hex()})
		case 5: // a second gas request, or none of the known types
			raw := []string{hx(append([]byte{0}, make([]byte, 40)...))}
			if r.Chance(0.4) {
				raw = []string{hx([]byte{byte(30 + r.Intn(200)), 1, 2, 3})}
			}
			if r.Chance(0.3) {
				raw = []string{hx(append([]byte{byte(r.Intn(22))}, r.Bytes(r.Intn(120))...))}
			}
			ops = append(ops, &ELOp{Kind: "raw", Raw: raw})
		case 6:
			if t := anyTok(); t != tokGoat {
				ops = append(ops, &ELOp{Kind: "weight", Token: t.Hex(), U1: []uint64{0, 1, 1 << 62, ^uint64(0)}[r.Intn(4)]})
			}
		case 7:
			ops = append(ops, &ELOp{Kind: "threshold", Token: anyTok().Hex(), Amount: huge().String()})
		case 8:
			ops = append(ops, &ELOp{Kind: "rmvoter", Val: anyVal().Hex()}, &ELOp{Kind: "cancel1", U1: uint64(r.Intn(50))}, &ELOp{Kind: "rbf", U1: uint64(r.Intn(50)), U2: uint64(r.Intn(100))})
		}
	}
	return ops
}

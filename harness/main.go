package main

// goatsim: deterministic whole-system simulation of GOATNetwork/goat with fault injection.
//
//	goatsim check   -property C11 -tier quick|thorough [-seed N] [-workers 16] [-budget 90s]
//	goatsim worker  ...            (spawned by check; one OS process per worker)
//	goatsim replay  -file plan.json [-trace]
//	goatsim one     -profile locking -seed N [-trace]     (development)
//
// Exit status: 0 property held on everything explored (known findings are printed),
// 1 violation (a line "VIOLATION property=<id> replay=<path>"), 2 trouble in the machinery.

import (
	"bufio"
	"encoding/json"
	"flag"
	"fmt"
	"os"
	"os/exec"
	"path/filepath"
	"runtime"
	"sort"
	"strings"
	"sync"
	"time"

	"github.com/goatnetwork/goat/verifsim/simrt"
)

var verifDir = "/verif"

func main() {
	if len(os.Args) < 2 {
		fmt.Fprintln(os.Stderr, "usage: goatsim check|worker|replay|one ...")
		os.Exit(2)
	}
	if d := os.Getenv("VERIF_DIR"); d != "" {
		verifDir = d
	}
	if os.Getenv("GOATSIM_FREE") != "" {
		simrt.SetMode(simrt.Free)
	}
	switch os.Args[1] {
	case "check":
		os.Exit(cmdCheck(os.Args[2:]))
	case "worker":
		os.Exit(cmdWorker(os.Args[2:]))
	case "replay":
		os.Exit(cmdReplay(os.Args[2:]))
	case "one":
		os.Exit(cmdOne(os.Args[2:]))
	case "selftest":
		os.Exit(cmdSelftest(os.Args[2:]))
	case "minimise":
		os.Exit(cmdMinimise(os.Args[2:]))
	}
	fmt.Fprintln(os.Stderr, "unknown command", os.Args[1])
	os.Exit(2)
}

// ---------------------------------------------------------------------------------------------

func cmdOne(args []string) int {
	fs := flag.NewFlagSet("one", flag.ExitOnError)
	profile := fs.String("profile", "locking", "")
	seed := fs.Uint64("seed", 1, "")
	tier := fs.String("tier", "quick", "")
	trace := fs.Bool("trace", false, "")
	out := fs.String("out", "", "write the plan here")
	traceOnly := fs.Bool("traceonly", false, "print only the trace hash")
	as := fs.String("as", "", "property: draw the profile and configuration the way that property's check worker does for this run seed")
	fs.Parse(args)
	cr := newRand(*seed, "config")
	if *as != "" {
		profiles := propertyProfiles[*as]
		*profile = profiles[0]
		if len(profiles) > 1 && cr.Chance(0.3) {
			*profile = profiles[1+cr.Intn(len(profiles)-1)]
		}
	}
	cfg := drawConfig(*profile, *tier, cr)
	plan := &Plan{V: 1, Property: *as, Seed: *seed, Config: cfg}
	w, res := executePlan(plan, false, *trace)
	if *traceOnly {
		if res.Error != "" {
			fmt.Fprintln(os.Stderr, res.Error)
			return 2
		}
		fmt.Println(res.Trace)
		return 0
	}
	printRun(w, res, *trace)
	if *out != "" {
		writePlan(*out, plan)
	}
	if res.Error != "" {
		return 2
	}
	return 0
}

func printRun(w *World, res *RunResult, trace bool) {
	if trace && w != nil {
		for _, n := range w.Notes {
			fmt.Println(n)
		}
	}
	b, _ := json.MarshalIndent(res, "", " ")
	fmt.Println(string(b))
}

func cmdReplay(args []string) int {
	fs := flag.NewFlagSet("replay", flag.ExitOnError)
	file := fs.String("file", "", "")
	trace := fs.Bool("trace", false, "")
	quiet := fs.Bool("quiet", false, "")
	fs.Parse(args)
	if *file == "" && fs.NArg() > 0 {
		*file = fs.Arg(0)
	}
	plan, err := readPlan(*file)
	if err != nil {
		fmt.Fprintln(os.Stderr, "replay:", err)
		return 2
	}
	w, res := executePlan(plan, true, *trace)
	if !*quiet {
		printRun(w, res, *trace)
	}
	if res.Error != "" {
		fmt.Fprintln(os.Stderr, res.Error)
		return 2
	}
	if plan.Race {
		// run under the race build (./check replay does that); the report goes to stderr / GORACE log
		fmt.Println("race plan replayed; the data-race report, if any, is on stderr")
		return 0
	}
	if plan.Violation != nil {
		if v := hasViolation(res.Violations, plan.Violation.Property, plan.Violation.Oracle); v != nil {
			fmt.Printf("REPRODUCED property=%s oracle=%s: %s\n", v.Property, v.Oracle, v.Detail)
			return 1
		}
		fmt.Printf("NOT-REPRODUCED property=%s oracle=%s\n", plan.Violation.Property, plan.Violation.Oracle)
		return 0
	}
	if len(res.Violations) > 0 {
		return 1
	}
	return 0
}

// ---------------------------------------------------------------------------------------------
// worker: runs seeds idx, idx+of, ... until the budget is used, one JSON line per run

func cmdWorker(args []string) int {
	fs := flag.NewFlagSet("worker", flag.ExitOnError)
	prop := fs.String("property", "", "")
	tier := fs.String("tier", "quick", "")
	seed := fs.Uint64("seed", 1, "")
	idx := fs.Int("index", 0, "")
	of := fs.Int("of", 1, "")
	budget := fs.Duration("budget", 60*time.Second, "")
	maxRuns := fs.Int("max-runs", 1<<30, "")
	replays := fs.String("replays", filepath.Join(verifDir, "replays"), "")
	raceLog := fs.String("race-log", "", "GORACE log_path prefix (race build, free mode)")
	fs.Parse(args)
	raceOff := int64(0)
	if *prop == "C19" && *raceLog == "" {
		os.MkdirAll(*replays, 0o755)
		walPath = filepath.Join(*replays, fmt.Sprintf("wal-%d.jsonl", os.Getpid()))
	}
	deadline := time.Now().Add(*budget)
	profiles := propertyProfiles[*prop]
	if len(profiles) == 0 {
		fmt.Fprintln(os.Stderr, "worker: unknown property", *prop)
		return 2
	}
	enc := json.NewEncoder(os.Stdout)
	known := loadKnown()
	reported := map[string]bool{}
	// systematic part first: single-fault variants of short fixed histories
	if *raceLog == "" && (*prop == "C09" || *prop == "C06" || *prop == "C07") {
		vi := 0
		for bi := 0; bi < enumBases(*tier); bi++ {
			baseSeed := simrt.Stream(*seed, "enum-base", bi)
			base := &Plan{V: 1, Property: *prop, Seed: baseSeed, Config: enumBaseConfig(newRand(baseSeed, "config"))}
			if _, bres := executePlan(base, false, false); bres.Error != "" {
				bres.Profile = "enum"
				enc.Encode(bres)
				return 2
			}
			for _, v := range enumVariants(*prop, base) {
				vi++
				if vi%*of != *idx {
					continue
				}
				_, res := executePlan(v.Plan, true, false)
				res.Profile = "enum"
				res.Enumerated = v.Label
				if vi/(*of) < 2 {
					res.Sample = "base seed " + fmt.Sprint(baseSeed) + " variant " + v.Label + ": " + samplePlan(v.Plan)
				}
				for _, viol := range res.Violations {
					if viol.Property != *prop || known.matches(viol) != nil {
						continue
					}
					key := viol.Oracle + "/" + viol.Shape
					if reported[key] {
						continue
					}
					reported[key] = true
					v.Plan.Violation = viol
					min := minimise(v.Plan, viol, 30*time.Second)
					if _, mres := executePlan(min, true, false); hasViolation(mres.Violations, viol.Property, viol.Oracle) == nil {
						min = v.Plan
					} else {
						min.Violation = hasViolation(mres.Violations, viol.Property, viol.Oracle)
					}
					os.MkdirAll(*replays, 0o755)
					path := filepath.Join(*replays, fmt.Sprintf("%s-%s-enum-%x.json", viol.Property, sanitize(viol.Oracle+"-"+viol.Shape), baseSeed))
					if writePlan(path, min) == nil {
						res.PlanFile = path
					}
				}
				if err := enc.Encode(res); err != nil || res.Error != "" {
					return 2
				}
			}
		}
	}
	// the seeded search always gets at least half the budget, however long the enumeration took
	// (on a loaded machine the enumeration alone can use the whole budget)
	if min := time.Now().Add(*budget / 2); deadline.Before(min) {
		deadline = min
	}
	for run := *idx; run < *maxRuns && time.Now().Before(deadline); run += *of {
		runSeed := simrt.Stream(*seed, "run", run)
		r := newRand(runSeed, "config")
		// ~70% of the runs use the home profile
		profile := profiles[0]
		if len(profiles) > 1 && r.Chance(0.3) {
			profile = profiles[1+r.Intn(len(profiles)-1)]
		}
		cfg := drawConfig(profile, *tier, r)
		plan := &Plan{V: 1, Property: *prop, Seed: runSeed, Config: cfg}
		_, res := executePlan(plan, false, false)
		if run%*of == *idx && run < 3**of {
			res.Sample = samplePlan(plan)
		}
		if *raceLog != "" {
			// free mode on the race build: only data races are reported, nothing else is judged
			res.Violations = nil
			logFile := fmt.Sprintf("%s.%d", *raceLog, os.Getpid())
			if b, err := os.ReadFile(logFile); err == nil && int64(len(b)) > raceOff {
				goat, other := parseRaceLog(string(b[raceOff:]))
				raceOff = int64(len(b))
				res.RaceOther = other
				for _, g := range goat {
					key := "race/" + g.Pair
					if *prop == "C17" && !strings.Contains(g.Pair, "/x/bitcoin/") {
						continue // C17's sweep looks at the query paths of the bridge module only; C08's reports the rest
					}
					v := &Violation{Property: *prop, Oracle: "data-race", Shape: g.Pair, Detail: "data race between goroutines of the application:\n" + g.Text}
					res.Violations = append(res.Violations, v)
					if !reported[key] {
						reported[key] = true
						plan.Violation = v
						plan.Race = true
						os.MkdirAll(*replays, 0o755)
						path := filepath.Join(*replays, fmt.Sprintf("%s-race-%s-%x.json", *prop, sanitize(g.Pair), runSeed))
						if writePlan(path, plan) == nil {
							res.PlanFile = path
						}
					}
				}
			}
			if err := enc.Encode(res); err != nil {
				return 2
			}
			if res.Error != "" {
				return 2
			}
			continue
		}
		// violations of the target property: minimise and write a replay file (once per oracle+shape)
		for _, v := range res.Violations {
			if v.Property != *prop {
				continue
			}
			key := v.Oracle + "/" + v.Shape
			if reported[key] {
				continue
			}
			reported[key] = true
			if known.matches(v) != nil {
				continue
			}
			plan.Violation = v
			min := minimise(plan, v, 45*time.Second)
			// confirm the minimised plan in-process; fall back to the full plan
			_, mres := executePlan(min, true, false)
			if mv := hasViolation(mres.Violations, v.Property, v.Oracle); mv != nil {
				min.Violation = mv
			} else {
				min = plan
			}
			os.MkdirAll(*replays, 0o755)
			name := fmt.Sprintf("%s-%s-%x.json", v.Property, sanitize(v.Oracle+"-"+v.Shape), runSeed)
			path := filepath.Join(*replays, name)
			if err := writePlan(path, min); err == nil {
				res.PlanFile = path
				res.MinSteps = len(min.Steps)
				v.Detail += fmt.Sprintf(" [replay=%s steps=%d]", path, len(min.Steps))
			}
		}
		if err := enc.Encode(res); err != nil {
			return 2
		}
		if res.Error != "" {
			return 2
		}
	}
	return 0
}

func _unused_reportedKnownSampleExists(dir string, v *Violation) bool {
	m, _ := filepath.Glob(filepath.Join(dir, fmt.Sprintf("%s-%s-*.json", v.Property, sanitize(v.Oracle+"-"+v.Shape))))
	return len(m) > 0
}

func sanitize(s string) string {
	var sb strings.Builder
	for _, c := range s {
		if (c >= 'a' && c <= 'z') || (c >= 'A' && c <= 'Z') || (c >= '0' && c <= '9') || c == '-' {
			sb.WriteRune(c)
		} else {
			sb.WriteRune('_')
		}
	}
	out := sb.String()
	if len(out) > 60 {
		out = out[:60]
	}
	return out
}

func samplePlan(p *Plan) string {
	var parts []string
	for i, st := range p.Steps {
		if i >= 14 {
			parts = append(parts, fmt.Sprintf("... (%d steps)", len(p.Steps)))
			break
		}
		a := string(st.A)
		if len(a) > 140 {
			a = a[:140] + "…"
		}
		parts = append(parts, st.K+a)
	}
	return strings.Join(parts, " ; ")
}

// ---------------------------------------------------------------------------------------------
// known findings

type KnownFinding struct {
	Property    string `json:"property"`
	Oracle      string `json:"oracle"`
	Shape       string `json:"shape"`
	Status      string `json:"status"` // known | fixed
	Commit      string `json:"commit,omitempty"`
	Description string `json:"description"`
}

type knownSet []KnownFinding

func loadKnown() knownSet {
	b, err := os.ReadFile(filepath.Join(verifDir, "known_findings.json"))
	if err != nil {
		return nil
	}
	var ks knownSet
	if err := json.Unmarshal(b, &ks); err != nil {
		fmt.Fprintln(os.Stderr, "known_findings.json:", err)
		os.Exit(2)
	}
	return ks
}

func (ks knownSet) matches(v *Violation) *KnownFinding {
	for i := range ks {
		k := &ks[i]
		if k.Status == "known" && k.Property == v.Property && k.Oracle == v.Oracle && (k.Shape == "" || k.Shape == v.Shape) {
			return k
		}
	}
	return nil
}

// ---------------------------------------------------------------------------------------------
// check: orchestrates workers, aggregates evidence, verifies replays

func cmdCheck(args []string) int {
	fs := flag.NewFlagSet("check", flag.ExitOnError)
	prop := fs.String("property", "", "")
	tier := fs.String("tier", os.Getenv("VERIF_TIER"), "")
	seedFlag := fs.Uint64("seed", 0, "")
	workers := fs.Int("workers", runtime.NumCPU(), "")
	budget := fs.Duration("budget", 0, "")
	raceBin := fs.String("race-bin", "", "race-detector build of goatsim (C08)")
	fs.Parse(args)
	if *tier == "" {
		*tier = "quick"
	}
	if *budget == 0 {
		*budget = 75 * time.Second
		if *tier == "thorough" {
			*budget = 20 * time.Minute
		}
	}
	seed := *seedFlag
	if seed == 0 {
		if s := os.Getenv("VERIF_SEED"); s != "" {
			fmt.Sscan(s, &seed)
		}
	}
	if seed == 0 {
		seed = uint64(time.Now().UnixNano())
	}
	seed &= 1<<62 - 1
	fmt.Printf("goatsim check property=%s tier=%s VERIF_SEED=%d workers=%d budget=%s\n", *prop, *tier, seed, *workers, *budget)
	if _, ok := propertyProfiles[*prop]; !ok {
		fmt.Fprintln(os.Stderr, "unknown property", *prop)
		return 2
	}
	t0 := time.Now()
	self, _ := os.Executable()
	replays := filepath.Join(verifDir, "replays")
	os.MkdirAll(replays, 0o755)

	var mu sync.Mutex
	var results []*RunResult
	var workerErr []string
	var deadWAL []string
	var wg sync.WaitGroup
	for i := 0; i < *workers; i++ {
		wg.Add(1)
		go func(i int) {
			defer wg.Done()
			cmd := exec.Command(self, "worker", "-property", *prop, "-tier", *tier, "-seed", fmt.Sprint(seed), "-index", fmt.Sprint(i), "-of", fmt.Sprint(*workers), "-budget", budget.String(), "-replays", replays)
			cmd.Env = append(os.Environ(), "GOMAXPROCS=2")
			stdout, _ := cmd.StdoutPipe()
			var stderr strings.Builder
			cmd.Stderr = &stderr
			if err := cmd.Start(); err != nil {
				mu.Lock()
				workerErr = append(workerErr, err.Error())
				mu.Unlock()
				return
			}
			// watchdog: every run a worker completes is one line on its stdout. A worker that has been
			// silent for a long time is stuck (a deadlock inside the simulation): it is killed and the
			// check ends with exit 2 (harness trouble) - never with a verdict, and never by hanging.
			quiet := 6 * time.Minute
			if *tier == "thorough" {
				quiet = 12 * time.Minute
			}
			hung := time.AfterFunc(quiet, func() {
				mu.Lock()
				workerErr = append(workerErr, fmt.Sprintf("worker %d: no run completed for %s: killed (stuck simulation)", i, quiet))
				mu.Unlock()
				cmd.Process.Kill()
			})
			defer hung.Stop()
			sc := bufio.NewScanner(stdout)
			sc.Buffer(make([]byte, 1<<20), 64<<20)
			for sc.Scan() {
				hung.Reset(quiet)
				res := new(RunResult)
				if err := json.Unmarshal(sc.Bytes(), res); err != nil {
					continue
				}
				mu.Lock()
				results = append(results, res)
				mu.Unlock()
			}
			if err := cmd.Wait(); err != nil {
				mu.Lock()
				if *prop == "C19" && cmd.Process != nil {
					deadWAL = append(deadWAL, filepath.Join(replays, fmt.Sprintf("wal-%d.jsonl", cmd.Process.Pid)))
				}
				tail := stderr.String()
				if len(tail) > 3000 {
					tail = tail[len(tail)-3000:]
				}
				workerErr = append(workerErr, fmt.Sprintf("worker %d: %v\n%s", i, err, tail))
				mu.Unlock()
			}
		}(i)
	}
	wg.Wait()
	wall := time.Since(t0)

	ev := aggregate(*prop, *tier, seed, results, wall)
	known := loadKnown()
	exit := 0
	// harness trouble first: never a verdict
	for _, r := range results {
		if r.Error != "" {
			fmt.Fprintf(os.Stderr, "HARNESS-ERROR seed=%d profile=%s: %s\n", r.Seed, r.Profile, r.Error)
			exit = 2
		}
	}
	crashViolations := 0
	for _, wal := range deadWAL {
		// C19: a worker that died is what a crash of the node process looks like. Rebuild the plan
		// from its write-ahead log and confirm that replaying it kills a fresh process again.
		plan, err := planFromWAL(wal)
		if err != nil || len(plan.Steps) == 0 {
			continue
		}
		plan.Property = "C19"
		plan.Violation = &Violation{Property: "C19", Oracle: "process-died", Shape: "crash", Detail: "the simulator process (hosting the application) died while executing the last step of this plan", Step: len(plan.Steps) - 1}
		path := filepath.Join(replays, fmt.Sprintf("C19-process-died-%x.json", plan.Seed))
		if writePlan(path, plan) != nil {
			continue
		}
		cmd := exec.Command(self, "replay", "-quiet", "-file", path)
		out, _ := cmd.CombinedOutput()
		code := -1
		if cmd.ProcessState != nil {
			code = cmd.ProcessState.ExitCode()
		}
		if code != 0 && code != 1 && (code != 2 || strings.Contains(string(out), "fatal error") || strings.Contains(string(out), "goroutine ")) {
			tail := string(out)
			if len(tail) > 1500 {
				tail = tail[len(tail)-1500:]
			}
			fmt.Printf("violation: process-died/crash: replaying the plan kills the process (exit %d):\n%s\n", code, tail)
			fmt.Printf("VIOLATION property=C19 replay=%s\n", path)
			crashViolations++
			workerErr = nil
		}
		os.Remove(wal)
	}
	for _, e := range workerErr {
		fmt.Fprintln(os.Stderr, "WORKER-DIED:", e)
		exit = 2
	}
	type vio struct {
		v    *Violation
		plan string
	}
	seen := map[string]*vio{}
	knownSeen := map[string]*KnownFinding{}
	for _, r := range results {
		for _, v := range r.Violations {
			if v.Property != *prop {
				ok := v.Property + "/" + v.Oracle
				ev.Other[ok]++
				if ev.OtherSeeds == nil {
					ev.OtherSeeds = map[string][]string{}
				}
				if len(ev.OtherSeeds[ok]) < 4 {
					ev.OtherSeeds[ok] = append(ev.OtherSeeds[ok], fmt.Sprintf("profile=%s seed=%d shape=%s", r.Profile, r.Seed, v.Shape))
				}
				continue
			}
			if k := known.matches(v); k != nil {
				knownSeen[k.Oracle+"/"+k.Shape] = k
				continue
			}
			key := v.Oracle + "/" + v.Shape
			if seen[key] == nil || (seen[key].plan == "" && r.PlanFile != "") {
				seen[key] = &vio{v, r.PlanFile}
			}
		}
	}
	for _, k := range knownSeen {
		fmt.Printf("KNOWN-FINDING: property=%s %s/%s: %s\n", k.Property, k.Oracle, k.Shape, k.Description)
	}
	keys := make([]string, 0, len(seen))
	for k := range seen {
		keys = append(keys, k)
	}
	sort.Strings(keys)
	violations := 0
	for _, k := range keys {
		v := seen[k]
		if v.plan == "" {
			fmt.Fprintf(os.Stderr, "violation %s without replay file: %s\n", k, v.v.Detail)
			exit = 2
			continue
		}
		// the replay must reproduce in a fresh process
		cmd := exec.Command(self, "replay", "-quiet", "-file", v.plan)
		out, _ := cmd.CombinedOutput()
		if cmd.ProcessState == nil || cmd.ProcessState.ExitCode() != 1 || !strings.Contains(string(out), "REPRODUCED") {
			fmt.Fprintf(os.Stderr, "replay %s did not reproduce in a fresh process (determinism trouble):\n%s\n", v.plan, out)
			exit = 2
			continue
		}
		violations++
		fmt.Printf("violation: %s/%s: %s\n", v.v.Oracle, v.v.Shape, v.v.Detail)
		fmt.Printf("VIOLATION property=%s replay=%s\n", *prop, v.plan)
	}
	violations += crashViolations
	ev.Violations = violations
	if *raceBin != "" {
		rv, rerr := raceSweep(*raceBin, *prop, *tier, seed, *workers, known, ev)
		if rerr != nil {
			fmt.Fprintln(os.Stderr, "race sweep:", rerr)
			exit = 2
		}
		violations += rv
		ev.Violations = violations
	}
	if err := ev.write(); err != nil {
		fmt.Fprintln(os.Stderr, "evidence:", err)
		exit = 2
	}
	fmt.Printf("runs=%d heights=%d sim_time=%.0fs wall=%.1fs runs/hour=%.0f distinct_nontrivial=%d violations=%d\n", ev.Coverage.Evaluations, ev.Coverage.Heights, ev.Coverage.SimSeconds, wall.Seconds(), ev.Coverage.RunsPerHour, ev.Coverage.DistinctNontrivial, violations)
	// a violation that was reproduced from its replay file in a fresh process stands on its own,
	// whatever trouble other workers had (a stuck or dead worker alone is exit 2, never a verdict)
	if violations > 0 {
		return 1
	}
	if exit == 2 {
		return 2
	}
	if ev.Coverage.Evaluations == 0 {
		fmt.Fprintln(os.Stderr, "no run completed")
		return 2
	}
	return 0
}

// cmdMinimise shrinks a plan file that carries a violation (development / finding curation).
func cmdMinimise(args []string) int {
	fs := flag.NewFlagSet("minimise", flag.ExitOnError)
	file := fs.String("file", "", "")
	out := fs.String("out", "", "")
	budget := fs.Duration("budget", 120*time.Second, "")
	fs.Parse(args)
	plan, err := readPlan(*file)
	if err != nil || plan.Violation == nil {
		fmt.Fprintln(os.Stderr, "minimise: need a plan with a violation", err)
		return 2
	}
	_, res := executePlan(plan, true, false)
	v := hasViolation(res.Violations, plan.Violation.Property, plan.Violation.Oracle)
	if v == nil {
		fmt.Fprintln(os.Stderr, "minimise: the plan does not reproduce its violation")
		return 2
	}
	plan.Violation = v
	min := minimise(plan, v, *budget)
	_, mres := executePlan(min, true, false)
	if mv := hasViolation(mres.Violations, v.Property, v.Oracle); mv != nil {
		min.Violation = mv
	} else {
		min = plan
	}
	if err := writePlan(*out, min); err != nil {
		fmt.Fprintln(os.Stderr, err)
		return 2
	}
	fmt.Printf("minimised to %d steps: %s\n", len(min.Steps), min.Violation.Detail)
	return 0
}

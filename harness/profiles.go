package main

import (
	"fmt"
	"sort"
)

// Profiles: a workload mix (step-kind weights and fault probabilities) plus the way the
// configuration is drawn. Every property has a home profile; thorough runs also run the other
// profiles with only that property's oracles reporting.
var profileWeights = map[string]map[string]float64{
	"locking": {
		"block": 10, "el.locking": 9, "el.adversarial": 0.3,
		"p.absent": 0.10, "p.evidence": 0.03, "p.round": 0.04, "p.timejump": 0.08, "p.crash": 0.02, "p.engine": 0.02, "p.reexec": 0.02, "p.timecollide": 0.22,
	},
	"engine": {
		"block": 10, "el.locking": 3, "rel.hashes": 1, "rel.deposit": 1, "el.bridge": 1,
		"p.engine": 0.30, "p.finfault": 0.22, "p.crash": 0.10, "p.round": 0.08, "p.elrestart": 0.05, "p.skew": 0.03, "p.timejump": 0.02,
	},
	"determinism": {
		"block": 10, "el.locking": 5, "el.adversarial": 4, "rel.hashes": 1.5, "rel.deposit": 1.5, "el.bridge": 1, "rel.withdraw": 1,
		// relayer transactions that fail part-way (C07: "blocks whose transactions fail part-way")
		"btc.mine": 1.5, "rel.baddeposit": 1.5, "rel.badwithdraw": 1.2, "rel.forged": 1.2, "rel.replay": 0.6, "rel.group": 0.6, "el.params": 0.4, "probe.fuzztx": 0.6, "rel.bundle": 1.0, "rel.pubkey": 0.3,
		"p.absent": 0.08, "p.evidence": 0.02, "p.crash": 0.12, "p.reexec": 0.25, "p.skew": 0.10, "p.round": 0.05, "p.engine": 0.05, "p.timejump": 0.04, "p.timecollide": 0.04,
	},
	"handover": {
		"block": 10, "rel.hashes": 4, "rel.deposit": 5, "el.bridge": 4, "rel.withdraw": 4, "el.locking": 5, "el.adversarial": 0.5,
		"p.round": 0.15, "p.crash": 0.10, "p.engine": 0.10, "p.finfault": 0.05, "p.timejump": 0.05, "p.byz": 0.10, "p.timecollide": 0.18,
	},
	"relayer": {
		"block": 10, "rel.hashes": 3, "rel.pubkey": 1, "rel.consolidation": 1, "rel.group": 4, "rel.forged": 6, "rel.replay": 4, "rel.deposit": 1, "rel.withdraw": 2, "el.bridge": 2, "rel.bundle": 1.5,
		"p.timejump": 0.10, "p.round": 0.03, "p.crash": 0.02, "p.shadowdiff": 0.25,
	},
	"deposits": {
		"block": 10, "btc.mine": 4, "rel.hashes": 5, "rel.deposit": 8, "rel.baddeposit": 6, "el.params": 2, "rel.pubkey": 0.6, "rel.bundle": 2, "probe.queries": 1.5,
		"p.crash": 0.05, "p.engine": 0.03, "p.round": 0.03, "p.shadowdiff": 0.15,
	},
	"withdrawals": {
		"block": 10, "btc.mine": 3, "rel.hashes": 4, "el.bridge": 7, "rel.withdraw": 9, "rel.badwithdraw": 5, "rel.pubkey": 0.4, "rel.deposit": 1, "rel.bundle": 1.5, "probe.queries": 0.5,
		"p.crash": 0.04, "p.engine": 0.03, "p.round": 0.03, "p.shadowdiff": 0.15,
	},
	"proposal": {
		"block": 10, "el.locking": 3, "rel.hashes": 2, "rel.deposit": 2, "el.bridge": 2, "rel.withdraw": 2, "el.adversarial": 0.3,
		"p.byz": 0.35, "p.junk": 0.30, "p.skew": 0.05, "p.round": 0.05, "p.engine": 0.05, "p.multisched": 0.30,
	},
	"admission": {
		"block": 10, "probe.admission": 12, "rel.hashes": 1, "rel.group": 2, "rel.deposit": 1,
		"p.timejump": 0.10, "p.byz": 0.20, "p.shadowdiff": 0.25,
	},
	"fuzz": {
		"block": 10, "probe.fuzztx": 10, "probe.fuzzproposal": 4, "rel.bundle": 1, "rel.group": 2.5, "el.adversarial": 6, "el.locking": 2, "rel.hashes": 1, "rel.deposit": 1, "el.bridge": 1, "rel.withdraw": 1,
		"p.byz": 0.10, "p.junk": 0.10, "p.shadowdiff": 0.30,
	},
	"enum": {
		"block": 10, "el.locking": 3, "rel.hashes": 2, "rel.deposit": 3, "el.bridge": 2, "rel.withdraw": 3,
	},
	"export": {
		"block": 10, "probe.export": 1.2, "el.locking": 5, "rel.hashes": 2, "rel.deposit": 2, "el.bridge": 3, "rel.withdraw": 3, "rel.group": 2, "el.params": 1, "rel.pubkey": 0.3,
		"p.absent": 0.08, "p.evidence": 0.03, "p.timejump": 0.08,
	},
}

// homeProfile of each property, and the other profiles whose states it is also checked on.
var propertyProfiles = map[string][]string{
	"C01": {"relayer", "withdrawals", "deposits"},
	"C02": {"relayer", "withdrawals", "handover"},
	"C03": {"deposits", "handover", "export"},
	"C05": {"withdrawals", "handover", "export"},
	"C06": {"handover", "engine", "locking", "withdrawals", "deposits"},
	"C07": {"determinism", "locking", "engine", "handover", "deposits", "withdrawals", "relayer"},
	"C08": {"proposal", "handover", "locking", "engine"},
	"C09": {"engine", "handover", "determinism"},
	"C10": {"admission", "relayer", "fuzz", "proposal"},
	"C11": {"locking", "determinism", "export"},
	"C12": {"locking", "determinism", "export"},
	"C13": {"locking", "determinism", "export"},
	"C14": {"locking", "determinism"},
	"C15": {"locking", "determinism", "handover"},
	"C16": {"relayer", "admission", "export"},
	"C17": {"deposits", "withdrawals"},
	"C18": {"export", "locking", "withdrawals", "relayer"},
	"C19": {"fuzz", "proposal", "determinism", "locking", "relayer"},
	"C20": {"deposits", "export"},
}

func drawConfig(profile string, tier string, r *Rand) Config {
	c := Config{Profile: profile}
	thorough := tier == "thorough"
	c.Nodes = 1 + r.Intn(3)
	if profile == "determinism" || profile == "engine" || profile == "handover" {
		c.Nodes = 2 + r.Intn(2)
	}
	if thorough && r.Chance(0.3) {
		c.Nodes = 4
	}
	c.Heights = 30 + r.Intn(50)
	if thorough {
		c.Heights = 60 + r.Intn(240)
	}
	c.ExtraVals = r.Intn(4)
	c.MaxValidators = int64(1 + r.Intn(8))
	if r.Chance(0.1) {
		c.MaxValidators = 100
	}
	if c.MaxValidators < int64(c.Nodes) {
		// keep at least the replica-backed validators in the set at genesis
		c.MaxValidators = int64(c.Nodes)
	}
	c.Voters = r.Intn(7)
	if profile == "relayer" && thorough && r.Chance(0.08) {
		c.Voters = 40 + r.Intn(200)
	}
	// tokens
	ntok := 1 + r.Intn(2)
	weights := []uint64{1, 1, 2, 5}
	thr := []string{"0", "1000000000000000000", "3000000000000000000"}
	c.Tokens = append(c.Tokens, TokenCfg{Addr: tokHex(tokGoat), Weight: pick(r, weights), Threshold: pick(r, thr)})
	if ntok > 1 {
		w2 := append(weights, 0)
		c.Tokens = append(c.Tokens, TokenCfg{Addr: tokHex(tokNative), Weight: pick(r, w2), Threshold: pick(r, thr)})
	}
	c.SignedBlocksWindow = int64(3 + r.Intn(20))
	c.MaxMissed = 1 + r.Int63n(c.SignedBlocksWindow-1)
	c.SlashDowntime = pick(r, []string{"0.02", "0.000000000000000001", "0.5", "0.999"})
	c.SlashDouble = pick(r, []string{"0.05", "0.3", "0.000000000000000001", "0.99"})
	c.BlockMs = int64(1000 + r.Intn(4000))
	c.UnlockSec = int64(5 + r.Intn(60))
	c.ExitSec = c.UnlockSec + int64(r.Intn(120))
	if r.Chance(0.2) {
		c.ExitSec = c.UnlockSec // legal (Params.Validate): exits and ordinary unlocks of one block share a maturity
	}
	c.JailSec = int64(60 + r.Intn(60))
	c.HalvingInterval = int64(3 + r.Intn(48))
	c.InitialReward = []int64{1, 1000, 2378234400000000000, 1<<63 - 1}[r.Intn(4)]
	c.RewardRemain = pick(r, []string{"0", "5000", "100000000000000000000", "6000000000000000000"})
	c.ElectingSec = int64(20 + r.Intn(100))
	if (profile == "relayer" || profile == "admission" || profile == "export") && r.Chance(0.4) {
		c.ElectingSec = int64(6 + r.Intn(10)) // several elections within a short run (members leave, come back, leave again)
	}
	c.AcceptTimeoutSec = []int64{0, 5, 15, 60}[r.Intn(4)]
	c.Network = pick(r, []string{"regtest", "regtest", "mainnet", "testnet3", "signet"})
	c.KeySchnorr = r.Chance(0.35)
	c.DepositV1 = !c.KeySchnorr && r.Chance(0.5)
	c.MinDeposit = []uint64{1001, 10000, 100000}[r.Intn(3)]
	if r.Chance(0.5) {
		c.TaxRate = uint64(1 + r.Intn(300))
		c.TaxMax = []uint64{1, 500, 100000, 100000000}[r.Intn(4)]
	}
	c.Magic = pick(r, []string{"GTT0", "GTV1", "ABCD"})
	c.Confirmations = uint64(1 + r.Intn(6))
	c.BtcStartTip = uint64(100 + r.Intn(1000))
	c.EvidenceMaxAgeBlocks = int64(5 + r.Intn(30))
	c.EvidenceMaxAgeSec = int64(10 + r.Intn(120))
	for i := 0; i < c.Nodes; i++ {
		c.IAVLCache = append(c.IAVLCache, []int{0, 1, 10, 100000}[r.Intn(4)])
		c.FastNodeOff = append(c.FastNodeOff, r.Chance(0.3))
		c.InterBlockCache = append(c.InterBlockCache, r.Chance(0.5))
		c.ClockSkewMs = append(c.ClockSkewMs, 0)
	}
	// swarm: copy the profile's weights, switch a random subset of fault kinds off
	base := profileWeights[profile]
	if base == nil {
		panic(harnessError{fmt.Sprintf("unknown profile %q", profile)})
	}
	c.Weights = map[string]float64{}
	c.FaultFree = r.Chance(0.15)
	keys := make([]string, 0, len(base))
	for k := range base {
		keys = append(keys, k)
	}
	sort.Strings(keys)
	for _, k := range keys {
		v := base[k]
		if isModifier(k) {
			if c.FaultFree {
				continue
			}
			if r.Chance(0.25) {
				continue // this fault kind is off in this run
			}
			if r.Chance(0.2) {
				v *= 2
			}
		}
		c.Weights[k] = v
	}
	// drawn last so that older seeds keep the rest of their configuration
	if r.Chance(0.35) {
		c.ELMaxOps = []int{40, 120}[r.Intn(2)]
		c.Bursts = true
	}
	if (profile == "locking" || profile == "determinism") && !c.FaultFree && r.Chance(0.06) {
		c.LastExit = true
	}
	if (profile == "locking" || profile == "determinism") && !c.FaultFree && !c.LastExit && r.Chance(0.06) {
		c.LastPunish = true
	}
	if c.FaultFree {
		c.Weights["el.adversarial"] = 0
		for _, k := range []string{"rel.forged", "rel.replay", "rel.baddeposit", "rel.badwithdraw", "rel.bundle", "probe.fuzztx", "probe.fuzzproposal"} {
			delete(c.Weights, k)
		}
	}
	return c
}

package main

import (
	"errors"

	dbm "github.com/cosmos/cosmos-db"
)

// FaultDB is the simulated disk of one node: a MemDB (the durable medium, it survives the App
// object) behind a wrapper that counts batch writes and can tear a Commit between two batches
// or fail a write.
type FaultDB struct {
	dbm.DB
	mem *dbm.MemDB

	BatchWrites int // batch writes since armed
	TearAfter   int // >0: panic(crashSignal) when the TearAfter-th batch write since arming has been applied
	FailAt      int // >0: the FailAt-th batch write returns an error instead of being applied
	Fired       string
}

type crashSignal struct{ why string }

var errDisk = errors.New("faultdb: injected write error (EIO)")

func newFaultDB() *FaultDB {
	m := dbm.NewMemDB()
	return &FaultDB{DB: m, mem: m}
}

func (f *FaultDB) arm(tearAfter, failAt int) {
	f.BatchWrites, f.TearAfter, f.FailAt, f.Fired = 0, tearAfter, failAt, ""
}

func (f *FaultDB) disarm() { f.TearAfter, f.FailAt = 0, 0 }

func (f *FaultDB) NewBatch() dbm.Batch { return &faultBatch{Batch: f.DB.NewBatch(), f: f} }
func (f *FaultDB) NewBatchWithSize(n int) dbm.Batch {
	return &faultBatch{Batch: f.DB.NewBatchWithSize(n), f: f}
}

// Close is a no-op: the medium outlives the application object.
func (f *FaultDB) Close() error { return nil }

type faultBatch struct {
	dbm.Batch
	f *FaultDB
}

func (b *faultBatch) write(sync bool) error {
	f := b.f
	f.BatchWrites++
	if f.FailAt > 0 && f.BatchWrites == f.FailAt {
		f.Fired = "write-error"
		return errDisk
	}
	var err error
	if sync {
		err = b.Batch.WriteSync()
	} else {
		err = b.Batch.Write()
	}
	if err == nil && f.TearAfter > 0 && f.BatchWrites == f.TearAfter {
		f.Fired = "torn-commit"
		panic(crashSignal{"torn commit"})
	}
	return err
}

func (b *faultBatch) Write() error     { return b.write(false) }
func (b *faultBatch) WriteSync() error { return b.write(true) }

// fork copies the durable contents into a fresh disk (shadow replicas, re-execution).
func (f *FaultDB) fork() *FaultDB {
	out := newFaultDB()
	it, err := f.mem.Iterator(nil, nil)
	if err != nil {
		panic(err)
	}
	defer it.Close()
	for ; it.Valid(); it.Next() {
		k := append([]byte{}, it.Key()...)
		v := append([]byte{}, it.Value()...)
		if err := out.mem.Set(k, v); err != nil {
			panic(err)
		}
	}
	return out
}

package main

import (
	"bytes"
	"fmt"
	"sort"

	abci "github.com/cometbft/cometbft/abci/types"
	sdk "github.com/cosmos/cosmos-sdk/types"
	"github.com/cosmos/gogoproto/proto"
	"github.com/ethereum/go-ethereum/core/types/goattypes"
	bitcoinmod "github.com/goatnetwork/goat/x/bitcoin/module"
	bitcointypes "github.com/goatnetwork/goat/x/bitcoin/types"
	goatmod "github.com/goatnetwork/goat/x/goat/module"
	goatmodtypes "github.com/goatnetwork/goat/x/goat/types"
	lockingmod "github.com/goatnetwork/goat/x/locking/module"
	lockingtypes "github.com/goatnetwork/goat/x/locking/types"
	relayermod "github.com/goatnetwork/goat/x/relayer/module"
	relayertypes "github.com/goatnetwork/goat/x/relayer/types"
)

// Snap is the committed state of the four modules after a block, read through the modules' own
// export functions (the same code path as `goatd export`).
type Snap struct {
	Height  int64
	Locking *lockingtypes.GenesisState
	Relayer *relayertypes.GenesisState
	Bitcoin *bitcointypes.GenesisState
	Goat    *goatmodtypes.GenesisState
	Vals    map[string]*lockingtypes.Validator // by 20-byte address string
	Voters  map[string]*relayertypes.Voter     // by bech32 address
	Wd      map[uint64]*bitcointypes.Withdrawal
	ValSet  map[string]uint64 // module's record of the active set
}

func (n *Node) snapshot() (s *Snap, err error) {
	defer func() {
		if r := recover(); r != nil {
			err = fmt.Errorf("export panicked: %v", r)
		}
	}()
	ctx := n.ctx()
	s = &Snap{Height: n.Height}
	s.Locking = lockingmod.ExportGenesis(ctx, n.App.LockingKeeper)
	s.Relayer = relayermod.ExportGenesis(ctx, n.App.RelayerKeeper)
	s.Bitcoin = bitcoinmod.ExportGenesis(ctx, n.App.BitcoinKeeper)
	s.Goat = goatmod.ExportGenesis(ctx, n.App.GoatKeeper)
	s.Vals = map[string]*lockingtypes.Validator{}
	for i := range s.Locking.Validators {
		v := &s.Locking.Validators[i]
		s.Vals[string(valAddrOfPub(v.Pubkey))] = v
	}
	s.Voters = map[string]*relayertypes.Voter{}
	for i := range s.Relayer.Voters {
		v := &s.Relayer.Voters[i]
		s.Voters[sdk.AccAddress(v.Address).String()] = v
	}
	s.Wd = map[uint64]*bitcointypes.Withdrawal{}
	for i := range s.Bitcoin.Withdrawals {
		wd := &s.Bitcoin.Withdrawals[i]
		s.Wd[wd.Id] = &wd.Withdrawal
	}
	s.ValSet = map[string]uint64{}
	vs, err := n.App.LockingKeeper.ActiveValidators(ctx)
	if err != nil {
		return nil, err
	}
	for _, v := range vs {
		s.ValSet[string(v.Address)] = uint64(v.Power)
	}
	return s, nil
}

func valAddrOfPub(pub []byte) []byte {
	k := &SecpKey{}
	_ = k
	return cmtAddr(pub)
}

// moduleDigest hashes the committed KV contents of the four GOAT modules (shadow differential).
func (n *Node) moduleDigest(skipAcc bool) map[string]string {
	out := map[string]string{}
	ctx := n.ctx()
	for _, name := range []string{"relayer", "bitcoin", "locking", "goat", "acc", "consensus"} {
		if skipAcc && name == "acc" {
			continue
		}
		key := n.App.GetKey(name)
		if key == nil {
			continue
		}
		st := ctx.KVStore(key)
		it := st.Iterator(nil, nil)
		var parts [][]byte
		for ; it.Valid(); it.Next() {
			parts = append(parts, u64le(uint64(len(it.Key()))), it.Key(), u64le(uint64(len(it.Value()))), it.Value())
		}
		it.Close()
		out[name] = hx(sha(parts...))
	}
	return out
}

// storeDump lists key/value pairs of one store (for reporting differences).
func (n *Node) storeDump(name string) map[string]string {
	out := map[string]string{}
	key := n.App.GetKey(name)
	if key == nil {
		return out
	}
	it := n.ctx().KVStore(key).Iterator(nil, nil)
	defer it.Close()
	for ; it.Valid(); it.Next() {
		out[hx(it.Key())] = hx(it.Value())
	}
	return out
}

func diffDumps(a, b map[string]string) []string {
	var out []string
	for k, v := range a {
		if b[k] != v {
			out = append(out, k)
		}
	}
	for k := range b {
		if _, ok := a[k]; !ok {
			out = append(out, k)
		}
	}
	sort.Strings(out)
	return out
}

// BlockInfo is what a decided block contained, decoded for the oracles.
type BlockInfo struct {
	B          *DecidedBlock
	HasMsg     bool // first tx is a block message
	MsgOK      bool // ... and it succeeded
	Payload    *goatmodtypes.ExecutionPayload
	Msg        *goatmodtypes.MsgNewEthBlock
	Bridge     goattypes.BridgeRequests
	RelayerReq goattypes.RelayerRequests
	LockingReq goattypes.LockingRequests
	ReqErr     error
	ELBlock    *ELBlock
	TxMsgs     [][]sdk.Msg
	TxRes      []*abci.ExecTxResult
}

func (w *World) blockInfo(b *DecidedBlock) *BlockInfo {
	bi := &BlockInfo{B: b, TxRes: b.Resp.TxResults}
	for i, raw := range b.Txs {
		tx, err := w.decodeTx(raw)
		if err != nil {
			bi.TxMsgs = append(bi.TxMsgs, nil)
			continue
		}
		msgs := tx.GetMsgs()
		bi.TxMsgs = append(bi.TxMsgs, msgs)
		if i == 0 && len(msgs) == 1 {
			if m, ok := msgs[0].(*goatmodtypes.MsgNewEthBlock); ok && m.Payload != nil {
				bi.HasMsg = true
				bi.Msg = m
				bi.Payload = m.Payload
				bi.MsgOK = len(b.Resp.TxResults) > 0 && b.Resp.TxResults[0].Code == 0
				bi.Bridge, bi.RelayerReq, bi.LockingReq, bi.ReqErr = goattypes.DecodeRequests(m.Payload.Requests)
				bi.ELBlock = w.EL.Blocks[[32]byte(padHash(m.Payload.BlockHash))]
			}
		}
	}
	return bi
}

func padHash(b []byte) []byte {
	if len(b) == 32 {
		return b
	}
	out := make([]byte, 32)
	copy(out[32-minInt(32, len(b)):], b)
	return out
}

var _ = bytes.Equal
var _ proto.Message

package main

import (
	"bytes"
	"fmt"
	"github.com/ethereum/go-ethereum/core/types/goattypes"
	"math/big"

	"github.com/btcsuite/btcd/btcec/v2/schnorr"
	"github.com/btcsuite/btcd/txscript"
	"github.com/btcsuite/btcd/wire"
	"github.com/ethereum/go-ethereum/common"
	bitcointypes "github.com/goatnetwork/goat/x/bitcoin/types"
	relayertypes "github.com/goatnetwork/goat/x/relayer/types"
)

type candTx struct {
	Txid   []byte
	Values []uint64
	Fee    uint64
}

type procModel struct {
	IDs   []uint64
	Cands []candTx
}

type btcModel struct {
	w        *World
	Tip      uint64
	Voted    map[uint64][]byte
	Keys     map[string]bool // encoded registered keys
	CurKey   *relayertypes.PublicKey
	Credited map[string]int64 // txid:vout -> height credited
	Proc     map[uint64]*procModel
	NextPid  uint64
	Paid     map[uint64]bool
	Refunded map[uint64]bool
	History  map[uint64][]bitcointypes.WithdrawalStatus
	PaidAmt  map[uint64]*big.Int // withdrawal id -> wei the execution layer must be told when it is paid
	UserMax  map[uint64]uint64   // withdrawal id -> the user's latest fee ceiling (from the requests, not from the chain)
	tips     []uint64            // voted tip before each tx of the block being judged
}

func newBtcModel(w *World) *btcModel {
	m := &btcModel{w: w, Tip: w.Cfg.BtcStartTip, Voted: map[uint64][]byte{}, Keys: map[string]bool{}, Credited: map[string]int64{}, Proc: map[uint64]*procModel{},
		Paid: map[uint64]bool{}, Refunded: map[uint64]bool{}, History: map[uint64][]bitcointypes.WithdrawalStatus{}, UserMax: map[uint64]uint64{}}
	m.Voted[m.Tip] = w.Btc.Blocks[m.Tip].Hash
	m.CurKey = relayerPubKey(w.BtcKeys[0], w.Cfg.KeySchnorr)
	m.Keys[string(relayertypes.EncodePublicKey(m.CurKey))] = true
	return m
}

func (m *btcModel) tipBefore(i int) uint64 {
	if i < len(m.tips) {
		return m.tips[i]
	}
	return m.Tip
}

// refDepositScriptOK: does script commit to key and evm the way the deposit rule says?
// v0: ECDSA key: P2WSH of <evm> OP_DROP <key> OP_CHECKSIG; Schnorr key: P2TR of the key tweaked by evm.
// v1: ECDSA only: P2WPKH of the key followed by OP_RETURN <magic || evm>.
func refDepositScriptOK(version uint32, key *relayertypes.PublicKey, magic, evm, out0, out1 []byte) bool {
	if key == nil || len(evm) != 20 {
		return false
	}
	switch k := key.GetKey().(type) {
	case *relayertypes.PublicKey_Secp256K1:
		if len(k.Secp256K1) != 33 {
			return false
		}
		switch version {
		case 0:
			s, err := txscript.NewScriptBuilder().AddData(evm).AddOp(txscript.OP_DROP).AddData(k.Secp256K1).AddOp(txscript.OP_CHECKSIG).Script()
			if err != nil {
				return false
			}
			return bytes.Equal(out0, append([]byte{txscript.OP_0, 32}, sha(s)...))
		case 1:
			if len(magic) != 4 {
				return false
			}
			if !bytes.Equal(out0, append([]byte{txscript.OP_0, 20}, btcHash160(k.Secp256K1)...)) {
				return false
			}
			want := append([]byte{txscript.OP_RETURN, 24}, append(append([]byte{}, magic...), evm...)...)
			return bytes.Equal(out1, want)
		}
	case *relayertypes.PublicKey_Schnorr:
		if version != 0 {
			return false
		}
		pk, err := schnorr.ParsePubKey(k.Schnorr)
		if err != nil {
			return false
		}
		prog := schnorr.SerializePubKey(txscript.ComputeTaprootOutputKey(pk, evm))
		return bytes.Equal(out0, append([]byte{txscript.OP_1, 32}, prog...))
	}
	return false
}

// refDepositScripts builds the output script(s) a deposit for (version, key, evm) must pay — the
// same construction refDepositScriptOK checks, used by users who derive the address themselves
// (for a key that is not registered yet).
func refDepositScripts(version uint32, key *relayertypes.PublicKey, magic, evm []byte) (out0, out1 []byte, ok bool) {
	if key == nil || len(evm) != 20 {
		return nil, nil, false
	}
	switch k := key.GetKey().(type) {
	case *relayertypes.PublicKey_Secp256K1:
		switch version {
		case 0:
			s, err := txscript.NewScriptBuilder().AddData(evm).AddOp(txscript.OP_DROP).AddData(k.Secp256K1).AddOp(txscript.OP_CHECKSIG).Script()
			if err != nil {
				return nil, nil, false
			}
			return append([]byte{txscript.OP_0, 32}, sha(s)...), nil, true
		case 1:
			if len(magic) != 4 {
				return nil, nil, false
			}
			return append([]byte{txscript.OP_0, 20}, btcHash160(k.Secp256K1)...), append([]byte{txscript.OP_RETURN, 24}, append(append([]byte{}, magic...), evm...)...), true
		}
	case *relayertypes.PublicKey_Schnorr:
		if version != 0 {
			return nil, nil, false
		}
		pk, err := schnorr.ParsePubKey(k.Schnorr)
		if err != nil {
			return nil, nil, false
		}
		return append([]byte{txscript.OP_1, 32}, schnorr.SerializePubKey(txscript.ComputeTaprootOutputKey(pk, evm))...), nil, true
	}
	return nil, nil, false
}

func refTax(value, rate, cap uint64) uint64 {
	if rate == 0 || value <= 10000 {
		return 0
	}
	tax := value / 10000 * rate
	if cap > 0 && tax > cap {
		tax = cap
	}
	return tax
}

func (w *World) oracleBitcoin(bi *BlockInfo) {
	m, b, cur, prev := w.M.Btc, bi.B, w.M.Cur, w.M.Prev
	o := w.M.Owed
	params := cur.Bitcoin.Params
	m.tips = m.tips[:0]

	// C20: parameters stay within safe bounds; out-of-range requests change nothing
	w.Stats.OracleEvals["C20"]++
	if params.DepositTaxRate >= 10000 {
		w.violate("C20", "tax-rate-out-of-bounds", "rate", "height %d: deposit tax rate %d basis points", b.Height, params.DepositTaxRate)
	}
	if params.MinDepositAmount <= 546 {
		w.violate("C20", "min-deposit-at-or-below-dust", "min", "height %d: minimum deposit %d satoshi", b.Height, params.MinDepositAmount)
	}
	if params.ConfirmationNumber < 1 {
		w.violate("C20", "zero-confirmations", "confirm", "height %d: confirmation depth %d", b.Height, params.ConfirmationNumber)
	}
	if prev != nil && prev.Bitcoin != nil {
		pp := prev.Bitcoin.Params
		if !bi.MsgOK {
			if pp.DepositTaxRate != params.DepositTaxRate || pp.MaxDepositTax != params.MaxDepositTax || pp.MinDepositAmount != params.MinDepositAmount || pp.ConfirmationNumber != params.ConfirmationNumber {
				w.violate("C20", "params-changed-without-request", "no-request", "height %d: bridge parameters changed although no execution block was applied", b.Height)
			}
		} else if bi.ReqErr == nil {
			wantRate := pp.DepositTaxRate
			for _, t := range bi.Bridge.DepositTax {
				w.probe("tax-request")
				if t.Rate < 10000 {
					wantRate = t.Rate
				} else {
					w.probe("tax-request-out-of-range")
				}
			}
			if params.DepositTaxRate != wantRate {
				w.violate("C20", "tax-rate-not-as-requested", "rate-model", "height %d: tax rate %d, expected %d after the requests of this block", b.Height, params.DepositTaxRate, wantRate)
			}
			wantConf := pp.ConfirmationNumber
			for _, c := range bi.Bridge.Confirmation {
				if c.Number >= 1 {
					wantConf = c.Number
				} else {
					w.probe("confirmation-request-out-of-range")
				}
			}
			if params.ConfirmationNumber != wantConf {
				w.violate("C20", "confirmations-not-as-requested", "confirm-model", "height %d: confirmation depth %d, expected %d", b.Height, params.ConfirmationNumber, wantConf)
			}
			minD := pp.MinDepositAmount
			certain := true
			for _, md := range bi.Bridge.MinDeposit {
				switch {
				case md.Satoshi <= 546:
					w.probe("min-deposit-request-out-of-range")
				case md.Satoshi > 1000:
					minD = md.Satoshi
				default:
					certain = false // between Bitcoin's dust limit and the margin the code keeps: either reading is safe
				}
			}
			if certain && params.MinDepositAmount != minD {
				w.violate("C20", "min-deposit-not-as-requested", "min-model", "height %d: minimum deposit %d, expected %d", b.Height, params.MinDepositAmount, minD)
			}
		}
	}

	// withdrawals created / changed by the execution block. The user's current fee ceiling is
	// modelled from the requests themselves (not read back from the chain): set at creation, moved
	// by every fee update the user sends while the withdrawal is pending or being processed.
	if bi.MsgOK && bi.ReqErr == nil {
		created := map[uint64]bool{}
		for _, wd := range bi.Bridge.Withdraws {
			w.probe("withdrawal-created")
			if _, dup := m.UserMax[wd.Id]; !dup {
				m.UserMax[wd.Id] = wd.TxPrice
				created[wd.Id] = true
			}
		}
		for _, rb := range bi.Bridge.ReplaceByFees {
			st := bitcointypes.WITHDRAWAL_STATUS_UNSPECIFIED
			if hist := m.History[rb.Id]; len(hist) > 0 {
				st = hist[len(hist)-1]
			} else if created[rb.Id] && w.Btc.addressPayable(w.wdAddress(bi, rb.Id)) {
				st = bitcointypes.WITHDRAWAL_STATUS_PENDING
			}
			if st == bitcointypes.WITHDRAWAL_STATUS_PENDING || st == bitcointypes.WITHDRAWAL_STATUS_PROCESSING {
				m.UserMax[rb.Id] = rb.TxPrice
				if st == bitcointypes.WITHDRAWAL_STATUS_PROCESSING {
					w.probe("fee-ceiling-moved-while-processing")
				}
			}
		}
	}

	// relayer transactions in order
	for i, msgs := range bi.TxMsgs {
		m.tips = append(m.tips, m.Tip)
		if i < len(bi.TxRes) && msgs != nil && bi.TxRes[i].Code != 0 && len(msgs) == 1 {
			if nd, ok := msgs[0].(*bitcointypes.MsgNewDeposits); ok {
				w.checkRejectedDeposit(bi, i, nd)
			}
		}
		if i >= len(bi.TxRes) || msgs == nil || bi.TxRes[i].Code != 0 {
			continue
		}
		for _, mm := range msgs {
			switch t := mm.(type) {
			case *bitcointypes.MsgNewBlockHashes:
				w.Stats.OracleEvals["C06"]++
				if t.StartBlockNumber != m.Tip+1 {
					w.violate("C06", "voted-hashes-gap", "gap", "height %d: block hashes accepted starting at %d while the tip is %d", b.Height, t.StartBlockNumber, m.Tip)
				}
				for j, h := range t.BlockHash {
					ht := t.StartBlockNumber + uint64(j)
					if old, ok := m.Voted[ht]; ok && !bytes.Equal(old, h) {
						w.violate("C06", "voted-hash-rewritten", "rewrite", "height %d: bitcoin height %d re-voted with another hash", b.Height, ht)
					}
					m.Voted[ht] = h
					if ht > m.Tip {
						m.Tip = ht
					}
					o.owe("btcblock", fmt.Sprintf("%x", h), fmt.Sprintf("btc height %d", ht), b.Height)
				}
				w.probe("hashes-voted")
			case *bitcointypes.MsgNewPubkey:
				enc := string(relayertypes.EncodePublicKey(t.Pubkey))
				if m.Keys[enc] {
					w.violate("C02", "existing-key-accepted", "existing-key", "height %d: NewPubkey for an already registered key succeeded", b.Height)
				}
				m.Keys[enc] = true
				m.CurKey = t.Pubkey
				w.probe("relayer-key-rotated")
			case *bitcointypes.MsgNewDeposits:
				for _, d := range t.Deposits {
					w.checkCreditedDeposit(bi, i, t, d)
				}
			case *bitcointypes.MsgProcessWithdrawal:
				w.checkProcess(bi, i, t)
			case *bitcointypes.MsgReplaceWithdrawal:
				w.checkReplace(bi, i, t)
			case *bitcointypes.MsgFinalizeWithdrawal:
				w.checkFinalize(bi, i, t)
			case *bitcointypes.MsgApproveCancellation:
				for _, id := range t.Id {
					pst := bitcointypes.WITHDRAWAL_STATUS_UNSPECIFIED
					if prev != nil && prev.Wd[id] != nil {
						pst = prev.Wd[id].Status
					}
					// only what the user asked to cancel may be cancelled
					asked := pst == bitcointypes.WITHDRAWAL_STATUS_CANCELING
					if bi.MsgOK && bi.ReqErr == nil {
						for _, c := range bi.Bridge.Cancel1s {
							if c.Id == id {
								asked = true
							}
						}
					}
					if !asked {
						w.violate("C05", "cancelled-without-request", "approve-"+pst.String(), "height %d tx %d: cancellation of withdrawal %d approved although its user never asked for it (status before the block: %s)", b.Height, i, id, pst)
					}
					o.owe("refund", fmt.Sprintf("%d", id), "cancellation approved", b.Height)
					if m.Refunded[id] || m.Paid[id] {
						w.violate("C05", "second-terminal-outcome", "approve-after-terminal", "height %d: cancellation of withdrawal %d approved although it already had a terminal outcome", b.Height, id)
					}
					m.Refunded[id] = true
					w.probe("cancellation-approved")
				}
			}
		}
	}
	if bi.MsgOK && bi.ReqErr == nil {
		for _, wd := range bi.Bridge.Withdraws {
			if !w.Btc.addressPayable(wd.Address) {
				m.Refunded[wd.Id] = true
			}
		}
	}
	if cur.Bitcoin.BlockTip != m.Tip {
		w.violate("C06", "tip-differs-from-model", "tip", "height %d: recorded bitcoin tip %d, model %d", b.Height, cur.Bitcoin.BlockTip, m.Tip)
	}
	enc := func(k *relayertypes.PublicKey) string { return string(relayertypes.EncodePublicKey(k)) }
	if cur.Bitcoin.Pubkey == nil || enc(cur.Bitcoin.Pubkey) != enc(m.CurKey) {
		w.violate("C17", "current-key-differs-from-model", "curkey", "height %d: the recorded relayer key is not the last one accepted by vote", b.Height)
	}

	// C05: the amount the execution layer is told for a paid withdrawal is the proven transaction's output
	if bi.ELBlock != nil && bi.MsgOK {
		for _, g := range bi.ELBlock.GoatTxs {
			if pt, ok := g.Tx.(*goattypes.PaidTx); ok {
				if pt.Id == nil || !pt.Id.IsUint64() {
					continue
				}
				if want := m.PaidAmt[pt.Id.Uint64()]; want != nil && pt.Amount != nil && want.Cmp(pt.Amount) != 0 {
					w.violate("C05", "paid-amount-told-differs-from-proven-output", "paid-amount", "height %d: the execution layer was told withdrawal %d was paid with %s wei, the proven transaction pays %s wei", b.Height, pt.Id, pt.Amount, want)
				}
			}
		}
	}
	// C05-1: status paths
	w.Stats.OracleEvals["C05"]++
	for id, cw := range cur.Wd {
		hist := m.History[id]
		if len(hist) == 0 || hist[len(hist)-1] != cw.Status {
			from := bitcointypes.WITHDRAWAL_STATUS_UNSPECIFIED
			if len(hist) > 0 {
				from = hist[len(hist)-1]
			}
			if !allowedTransition(from, cw.Status) {
				w.violate("C05", "illegal-status-transition", fmt.Sprintf("%s->%s", from, cw.Status), "height %d: withdrawal %d moved %s -> %s", b.Height, id, from, cw.Status)
			}
			m.History[id] = append(hist, cw.Status)
			switch cw.Status {
			case bitcointypes.WITHDRAWAL_STATUS_PAID:
				w.probe("withdrawal-paid")
			case bitcointypes.WITHDRAWAL_STATUS_CANCELED:
				w.probe("withdrawal-cancelled")
			case bitcointypes.WITHDRAWAL_STATUS_CANCELING:
				w.probe("withdrawal-cancel-requested")
			}
		}
		// the recorded fee ceiling is the user's latest request
		if um, ok := m.UserMax[id]; ok && (cw.Status == bitcointypes.WITHDRAWAL_STATUS_PENDING || cw.Status == bitcointypes.WITHDRAWAL_STATUS_PROCESSING || cw.Status == bitcointypes.WITHDRAWAL_STATUS_CANCELING) && cw.MaxTxPrice != um {
			if !w.seenOnce(fmt.Sprintf("usermax:%d:%d", id, um)) {
				w.violate("C05", "fee-ceiling-not-as-requested", "user-max", "height %d: withdrawal %d (%s) records a maximum of %d sat/byte, the user's latest request is %d", b.Height, id, cw.Status, cw.MaxTxPrice, um)
			}
		}
		// an undecodable address is refunded at creation
		if len(hist) == 0 && !w.Btc.addressPayable(cw.Address) && cw.Status != bitcointypes.WITHDRAWAL_STATUS_CANCELED {
			w.violate("C05", "unpayable-address-not-refunded", "unpayable", "height %d: withdrawal %d to %q (not a standard address of %s) was created with status %s", b.Height, id, cw.Address, w.Cfg.Network, cw.Status)
			// C17: pay-to-pubkey, foreign-network and malformed address strings must not decode
			w.violate("C17", "non-standard-address-accepted", "unpayable-accepted", "height %d: withdrawal %d to %q, which is not a standard address of network %s, was accepted (status %s) instead of being refunded", b.Height, id, cw.Address, w.Cfg.Network, cw.Status)
		}
		if len(hist) == 0 {
			w.Stats.OracleEvals["C17"]++
		}
		if len(hist) == 0 && w.Btc.addressPayable(cw.Address) && cw.Status == bitcointypes.WITHDRAWAL_STATUS_CANCELED {
			w.violate("C17", "payable-address-refused", "payable-refused", "height %d: withdrawal %d to %q (a standard address of %s) was refunded at creation", b.Height, id, cw.Address, w.Cfg.Network)
		}
	}
	// the execution layer's own view: never both outcomes, never twice
	if bi.ELBlock != nil && bi.MsgOK {
		for _, an := range bi.ELBlock.State.Anomalies {
			key := "el-anomaly:" + an
			if !w.seenOnce(key) {
				w.violate("C05", "execution-layer-told-twice", "el-anomaly", "height %d: %s", b.Height, an)
			}
		}
	}
}

// wdAddress: the address of a withdrawal created by this block's bridge requests.
func (w *World) wdAddress(bi *BlockInfo, id uint64) string {
	for _, wd := range bi.Bridge.Withdraws {
		if wd.Id == id {
			return wd.Address
		}
	}
	return ""
}

func (w *World) seenOnce(key string) bool {
	if w.Seen == nil {
		w.Seen = map[string]bool{}
	}
	if w.Seen[key] {
		return true
	}
	w.Seen[key] = true
	return false
}

func allowedTransition(from, to bitcointypes.WithdrawalStatus) bool {
	P, C, X, R, D := bitcointypes.WITHDRAWAL_STATUS_PENDING, bitcointypes.WITHDRAWAL_STATUS_CANCELING, bitcointypes.WITHDRAWAL_STATUS_CANCELED, bitcointypes.WITHDRAWAL_STATUS_PROCESSING, bitcointypes.WITHDRAWAL_STATUS_PAID
	switch from {
	case bitcointypes.WITHDRAWAL_STATUS_UNSPECIFIED:
		return to == P || to == X || to == C || to == R // created (and possibly moved on) within one block
	case P:
		return to == C || to == R || to == X || to == D // several steps may fall into one block: P->C->X, P->R->D
	case C:
		return to == R || to == X || to == D
	case R:
		return to == D
	}
	return false // paid and cancelled are terminal
}

// checkCreditedDeposit: C03 / C17 / C20 for one credited deposit.
func (w *World) checkCreditedDeposit(bi *BlockInfo, txi int, msg *bitcointypes.MsgNewDeposits, d *bitcointypes.Deposit) {
	m, b, cur := w.M.Btc, bi.B, w.M.Cur
	w.Stats.OracleEvals["C03"]++
	w.Stats.OracleEvals["C17"]++
	w.probe("deposit-credited")
	params := cur.Bitcoin.Params
	fail := func(shape, format string, args ...any) {
		w.violate("C03", "bad-deposit-credited", shape, "height %d tx %d: "+format, append([]any{b.Height, txi}, args...)...)
	}
	if d == nil {
		fail("nil", "nil deposit item credited")
		return
	}
	txid := dsha(d.NoWitnessTx)
	// the transaction must really be in the bitcoin block at that height, whose hash was voted
	blk := w.Btc.Blocks[d.BlockNumber]
	voted := m.Voted[d.BlockNumber]
	if blk == nil || voted == nil || !bytes.Equal(voted, blk.Hash) {
		fail("unvoted-block", "deposit credited under bitcoin height %d which has no voted hash of the real chain", d.BlockNumber)
		return
	}
	// ... and the submitted header for that height must be the voted one, with the transaction
	// hashing into its Merkle root at the claimed position (reference implementation)
	var hdr []byte
	for _, h := range msg.BlockHeaders {
		if h != nil && h.Height == d.BlockNumber {
			hdr = h.Raw
		}
	}
	if len(hdr) != 80 || !bytes.Equal(dsha(hdr), voted) {
		fail("header-not-voted", "deposit credited under a submitted header for height %d whose hash is not the voted %x", d.BlockNumber, voted[:6])
	} else if !refMerkleVerify(txid, hdr[36:68], d.IntermediateProof, d.TxIndex) {
		fail("merkle-mismatch", "transaction %x does not hash into the header's Merkle root at position %d with the given path", txid[:6], d.TxIndex)
	}
	idx := blk.indexOf(txid)
	if idx < 0 {
		fail("not-in-block", "transaction %x is not in bitcoin block %d", txid[:6], d.BlockNumber)
		return
	}
	tx := new(wire.MsgTx)
	if err := tx.DeserializeNoWitness(bytes.NewReader(d.NoWitnessTx)); err != nil {
		fail("undecodable-tx", "credited transaction does not decode")
		return
	}
	if int(d.OutputIndex) >= len(tx.TxOut) {
		fail("vout-oob", "output index %d out of range", d.OutputIndex)
		return
	}
	out := tx.TxOut[d.OutputIndex]
	value := uint64(out.Value)
	if uint32(idx) != d.TxIndex {
		w.probe("deposit-credited-under-other-position")
		if idx == 0 {
			fail("coinbase-position-alias", "the block's first transaction was proven under position %d", d.TxIndex)
		}
	}
	if idx == 0 {
		w.probe("coinbase-deposit-credited")
		if m.tipBefore(txi) < d.BlockNumber+100 {
			fail("immature-coinbase", "coinbase deposit at bitcoin height %d credited with voted tip %d", d.BlockNumber, m.tipBefore(txi))
		}
	}
	key := fmt.Sprintf("%x:%d", txid, d.OutputIndex)
	if at, dup := m.Credited[key]; dup {
		fail("credited-twice", "deposit %x:%d credited again (first at height %d)", txid[:6], d.OutputIndex, at)
	}
	m.Credited[key] = b.Height
	if d.RelayerPubkey == nil || !m.Keys[string(relayertypes.EncodePublicKey(d.RelayerPubkey))] {
		fail("unregistered-key", "deposit credited for a relayer key that was never registered")
	}
	var out1 []byte
	if len(tx.TxOut) > 1 {
		out1 = tx.TxOut[1].PkScript
	}
	if d.Version == 1 && d.OutputIndex != 0 {
		fail("v1-output", "version 1 deposit credited for output %d", d.OutputIndex)
	}
	if !refDepositScriptOK(d.Version, d.RelayerPubkey, params.DepositMagicPrefix, d.EvmAddress, out.PkScript, out1) {
		fail("script-mismatch", "output script %x does not commit to the claimed key and EVM address %x (version %d)", out.PkScript, d.EvmAddress, d.Version)
		w.violate("C17", "deposit-accepted-for-other-key-or-address", "script-mismatch", "height %d: deposit verification accepted a script for a key / EVM address it does not commit to", b.Height)
	}
	if value < params.MinDepositAmount {
		fail("below-minimum", "value %d below the minimum deposit %d", value, params.MinDepositAmount)
	}
	tax := refTax(value, params.DepositTaxRate, params.MaxDepositTax)
	w.Stats.OracleEvals["C20"]++
	if tax >= value || value-tax == 0 || value <= 546 {
		w.violate("C20", "unsafe-deposit-consequence", "tax-eats-value", "height %d: deposit of %d satoshi with rate %d cap %d: tax %d", b.Height, value, params.DepositTaxRate, params.MaxDepositTax, tax)
	}
	if tax > 0 {
		w.probe("deposit-taxed")
	}
	// value-exact: what the module queued for the execution layer is value - tax and tax
	for _, q := range cur.Bitcoin.EthTxQueue.Deposits {
		if q != nil && bytes.Equal(q.Txid, txid) && q.Txout == d.OutputIndex {
			// C03: the tax is always smaller than the value (and something is credited)
			if q.Tax >= value || q.Amount == 0 {
				fail("tax-not-smaller-than-value", "output of %d satoshi (rate %d, cap %d) queued as amount %d + tax %d", value, params.DepositTaxRate, params.MaxDepositTax, q.Amount, q.Tax)
			}
			// C20: whatever the parameters, what the chain itself computed never eats the deposit
			if q.Tax >= value || q.Amount == 0 || q.Amount > value {
				w.violate("C20", "unsafe-deposit-consequence", "tax-eats-value", "height %d: deposit of %d satoshi with rate %d cap %d was queued as amount %d + tax %d", b.Height, value, params.DepositTaxRate, params.MaxDepositTax, q.Amount, q.Tax)
			}
			if q.Amount != value-tax || q.Tax != tax {
				fail("value-mismatch", "output of %d satoshi (rate %d, cap %d) queued as amount %d + tax %d, expected %d + %d", value, params.DepositTaxRate, params.MaxDepositTax, q.Amount, q.Tax, value-tax, tax)
			}
			if !bytes.Equal(q.Address, d.EvmAddress) {
				fail("address-mismatch", "queued for %x, claimed %x", q.Address, d.EvmAddress)
			}
		}
	}
	// what the execution layer must be told (amounts in wei = satoshi * 1e10)
	sat := big.NewInt(1e10)
	amt := new(big.Int).Mul(new(big.Int).SetUint64(value-tax), sat)
	tx10 := new(big.Int).Mul(new(big.Int).SetUint64(tax), sat)
	target := common.BytesToAddress(d.EvmAddress)
	w.M.Owed.owe("deposit", fmt.Sprintf("%x:%d:%x:%s:%s", txid, d.OutputIndex, target[:], amt, tx10), "credited deposit", b.Height)
	// C17: an honestly created deposit is credited to exactly the address asked for
	for _, f := range w.Btc.Deposits {
		if bytes.Equal(f.Tx.Txid, txid) && f.Vout == d.OutputIndex {
			if f.EVM != target {
				w.violate("C17", "credited-to-other-address", "other-evm", "height %d: deposit made for %x credited to %x", b.Height, f.EVM[:6], target[:6])
			}
			if string(relayertypes.EncodePublicKey(f.Key)) != string(relayertypes.EncodePublicKey(d.RelayerPubkey)) {
				w.violate("C17", "credited-under-other-key", "other-key", "height %d: deposit to the address of one relayer key credited under another", b.Height)
			}
			f.Submitted = true
		}
	}
}

func (w *World) checkProcess(bi *BlockInfo, txi int, t *bitcointypes.MsgProcessWithdrawal) {
	m, b, cur, prev := w.M.Btc, bi.B, w.M.Cur, w.M.Prev
	w.Stats.OracleEvals["C05"]++
	w.probe("withdrawal-processing")
	fail := func(shape, format string, args ...any) {
		w.violate("C05", "bad-processing-accepted", shape, "height %d tx %d: "+format, append([]any{b.Height, txi}, args...)...)
	}
	tx := new(wire.MsgTx)
	if err := tx.DeserializeNoWitness(bytes.NewReader(t.NoWitnessTx)); err != nil {
		fail("undecodable", "payout transaction does not decode")
		return
	}
	pm := &procModel{IDs: t.Id}
	cand := candTx{Txid: dsha(t.NoWitnessTx), Fee: t.TxFee}
	w.checkPayoutOutputs(bi, txi, t.Id, tx, t.NoWitnessTx, t.TxFee, fail, &cand, "process")
	seen := map[uint64]bool{}
	for _, id := range t.Id {
		if seen[id] {
			fail("duplicate-id", "withdrawal %d listed twice in one batch", id)
		}
		seen[id] = true
		var pst bitcointypes.WithdrawalStatus
		if prev != nil && prev.Wd[id] != nil {
			pst = prev.Wd[id].Status
		}
		hist := m.History[id]
		if len(hist) > 0 {
			pst = hist[len(hist)-1]
		}
		if pst == bitcointypes.WITHDRAWAL_STATUS_PAID || pst == bitcointypes.WITHDRAWAL_STATUS_CANCELED || pst == bitcointypes.WITHDRAWAL_STATUS_PROCESSING {
			// (a withdrawal created in this very block has no history yet and is pending)
			if cw := cur.Wd[id]; cw != nil {
				fail("processed-from-"+pst.String(), "withdrawal %d was %s and is being processed", id, pst)
			}
		}
	}
	pm.Cands = append(pm.Cands, cand)
	m.Proc[m.NextPid] = pm
	m.NextPid++
}

// checkPayoutOutputs re-checks a payout transaction against the users' terms.
func (w *World) checkPayoutOutputs(bi *BlockInfo, txi int, ids []uint64, tx *wire.MsgTx, raw []byte, fee uint64, fail func(string, string, ...any), cand *candTx, what string) {
	cur := w.M.Cur
	if n := len(tx.TxOut); n != len(ids) && n != len(ids)+1 {
		fail("output-count", "%d outputs for %d withdrawals", n, len(ids))
		return
	}
	for i, id := range ids {
		cw := cur.Wd[id]
		if cw == nil {
			fail("unknown-id", "withdrawal %d does not exist", id)
			return
		}
		script, ok := w.Btc.payScript(cw.Address)
		if !ok {
			fail("unpayable-address", "withdrawal %d to %q is being paid", id, cw.Address)
			return
		}
		out := tx.TxOut[i]
		if !bytes.Equal(out.PkScript, script) {
			fail("script-mismatch", "output %d pays %x, the user's address %s is %x", i, out.PkScript, cw.Address, script)
		}
		if uint64(out.Value) > cw.RequestAmount || out.Value < 0 {
			fail("over-amount", "output %d pays %d, requested %d", i, out.Value, cw.RequestAmount)
		}
		// fee rate: fee / size <= max price, in exact arithmetic
		ceiling := cw.MaxTxPrice
		if um, ok := w.M.Btc.UserMax[id]; ok {
			ceiling = um // what the user asked for, whatever the chain recorded
		}
		if new(big.Int).SetUint64(fee).Cmp(new(big.Int).Mul(new(big.Int).SetUint64(ceiling), big.NewInt(int64(len(raw))))) > 0 {
			fail("over-fee", "fee %d over %d bytes exceeds the user's maximum of %d sat/byte (withdrawal %d)", fee, len(raw), ceiling, id)
		}
		cand.Values = append(cand.Values, uint64(out.Value))
	}
	if len(tx.TxOut) == len(ids)+1 {
		w.probe("payout-with-change")
		pk := w.M.Btc.CurKey // the key in force when this transaction executed
		if pk == nil || !bytes.Equal(tx.TxOut[len(ids)].PkScript, w.systemScript(pk)) {
			fail("change-not-to-current-key", "the extra output pays %x, not the current relayer key", tx.TxOut[len(ids)].PkScript)
		}
	}
}

func (w *World) checkReplace(bi *BlockInfo, txi int, t *bitcointypes.MsgReplaceWithdrawal) {
	m, b := w.M.Btc, bi.B
	w.Stats.OracleEvals["C05"]++
	w.probe("withdrawal-fee-bumped")
	fail := func(shape, format string, args ...any) {
		w.violate("C05", "bad-replacement-accepted", shape, "height %d tx %d: "+format, append([]any{b.Height, txi}, args...)...)
	}
	pm := m.Proc[t.Pid]
	if pm == nil {
		fail("unknown-pid", "replacement for processing id %d which the model does not know", t.Pid)
		return
	}
	tx := new(wire.MsgTx)
	if err := tx.DeserializeNoWitness(bytes.NewReader(t.NewNoWitnessTx)); err != nil {
		fail("undecodable", "replacement transaction does not decode")
		return
	}
	last := pm.Cands[len(pm.Cands)-1]
	if t.NewTxFee <= last.Fee {
		fail("fee-not-higher", "replacement fee %d is not above the previous %d", t.NewTxFee, last.Fee)
	}
	cand := candTx{Txid: dsha(t.NewNoWitnessTx), Fee: t.NewTxFee}
	w.checkPayoutOutputs(bi, txi, pm.IDs, tx, t.NewNoWitnessTx, t.NewTxFee, fail, &cand, "replace")
	pm.Cands = append(pm.Cands, cand)
}

func (w *World) checkFinalize(bi *BlockInfo, txi int, t *bitcointypes.MsgFinalizeWithdrawal) {
	m, b := w.M.Btc, bi.B
	w.Stats.OracleEvals["C05"]++
	fail := func(shape, format string, args ...any) {
		w.violate("C05", "bad-finalisation-accepted", shape, "height %d tx %d: "+format, append([]any{b.Height, txi}, args...)...)
	}
	pm := m.Proc[t.Pid]
	if pm == nil {
		fail("unknown-pid", "finalisation of processing id %d which the model does not know", t.Pid)
		return
	}
	ci := -1
	for i, c := range pm.Cands {
		if bytes.Equal(c.Txid, t.Txid) {
			ci = i
		}
	}
	if ci < 0 {
		fail("txid-not-voted", "txid %x is not one of the voted candidates", t.Txid[:6])
		return
	}
	if ci < len(pm.Cands)-1 {
		w.probe("finalised-on-older-candidate")
	}
	voted := m.Voted[t.BlockNumber]
	if voted == nil || len(t.BlockHeader) != 80 || !bytes.Equal(dsha(t.BlockHeader), voted) {
		fail("unvoted-header", "header does not hash to a voted block hash at bitcoin height %d", t.BlockNumber)
		return
	}
	if t.TxIndex == 0 {
		fail("position-zero", "finalised at position 0")
	}
	if !refMerkleVerify(t.Txid, t.BlockHeader[36:68], t.IntermediateProof, t.TxIndex) {
		fail("invalid-proof", "proof does not bind txid %x to position %d (depth %d)", t.Txid[:6], t.TxIndex, len(t.IntermediateProof)/32)
	}
	if blk := w.Btc.Blocks[t.BlockNumber]; blk != nil && bytes.Equal(blk.Hash, voted) && blk.indexOf(t.Txid) < 0 {
		fail("not-in-block", "txid %x is not in bitcoin block %d", t.Txid[:6], t.BlockNumber)
	}
	cand := pm.Cands[ci]
	sat := big.NewInt(1e10)
	for i, id := range pm.IDs {
		if m.Paid[id] || m.Refunded[id] {
			w.violate("C05", "second-terminal-outcome", "paid-after-terminal", "height %d: withdrawal %d paid although it already had a terminal outcome", b.Height, id)
		}
		m.Paid[id] = true
		// C05: what is recorded (and reported) for a paid withdrawal is the proven transaction's output for it
		if cw := w.M.Cur.Wd[id]; cw != nil && cw.Receipt != nil && i < len(cand.Values) {
			if !bytes.Equal(cw.Receipt.Txid, t.Txid) || cw.Receipt.Amount != cand.Values[i] || cw.Receipt.Txout != uint32(i) {
				w.violate("C05", "paid-receipt-not-of-proven-transaction", "receipt", "height %d: withdrawal %d was paid by %x output %d (%d satoshi, candidate %d of %d) but is recorded as paid by %x output %d with %d satoshi", b.Height, id, t.Txid[:6], i, cand.Values[i], ci, len(pm.Cands), cw.Receipt.Txid, cw.Receipt.Txout, cw.Receipt.Amount)
			}
		}
		if i < len(cand.Values) {
			amt := new(big.Int).Mul(new(big.Int).SetUint64(cand.Values[i]), sat)
			if m.PaidAmt == nil {
				m.PaidAmt = map[uint64]*big.Int{}
			}
			m.PaidAmt[id] = amt
			w.M.Owed.owe("paid", fmt.Sprintf("%d:%x:%d:%s", id, t.Txid, i, amt), "withdrawal paid", b.Height)
		}
	}
	delete(m.Proc, t.Pid)
}

// oracleBtcHashes: the exported hash list is the model's, gap-free and append-only.
func (w *World) oracleBtcHashes(bi *BlockInfo) {
	m, cur, b := w.M.Btc, w.M.Cur, bi.B
	if cur.Bitcoin == nil {
		return
	}
	tip := cur.Bitcoin.BlockTip
	for i, h := range cur.Bitcoin.BlockHashes {
		ht := tip - uint64(i)
		want, ok := m.Voted[ht]
		if !ok {
			continue
		}
		if !bytes.Equal(want, h) {
			w.violate("C06", "voted-hash-changed", "changed", "height %d: stored hash of bitcoin height %d changed", b.Height, ht)
		}
	}
	if uint64(len(cur.Bitcoin.BlockHashes)) != tip-w.Cfg.BtcStartTip+1 {
		w.violate("C06", "voted-hashes-not-gap-free", "gap-export", "height %d: %d stored hashes for heights %d..%d", b.Height, len(cur.Bitcoin.BlockHashes), w.Cfg.BtcStartTip, tip)
	}
}

func (w *World) checkAddressRefusal(n *Node, version uint32, err error) {
	// version 1 exists only for ECDSA keys; any other refusal of a well-formed request is a defect
	cur := w.view()
	if cur == nil || cur.Bitcoin.Pubkey == nil {
		return
	}
	_, isSchnorr := cur.Bitcoin.Pubkey.GetKey().(*relayertypes.PublicKey_Schnorr)
	if version == 1 && isSchnorr {
		w.probe("v1-refused-for-schnorr")
		return
	}
	if version > 1 {
		return
	}
	w.violate("C17", "address-query-refused", "refused", "node %d refused a deposit address (version %d, schnorr key %v): %v", n.ID, version, isSchnorr, err)
}

// checkRejectedDeposit (C03, completeness guard): an honestly submitted single deposit that
// satisfies every condition of the statement at execution time must be credited.
func (w *World) checkRejectedDeposit(bi *BlockInfo, txi int, msg *bitcointypes.MsgNewDeposits) {
	st := w.rel().Labels[txHash(bi.B.Txs[txi])]
	if st == nil || !st.Honest || len(msg.Deposits) != 1 || len(msg.BlockHeaders) != 1 {
		return
	}
	m, cur, prev := w.M.Btc, w.M.Cur, w.M.Prev
	d := msg.Deposits[0]
	if prev == nil || d == nil || msg.Proposer != prev.Relayer.Relayer.Proposer {
		return // the proposer changed between submission and execution
	}
	params := cur.Bitcoin.Params
	blk := w.Btc.Blocks[d.BlockNumber]
	voted := m.Voted[d.BlockNumber]
	if blk == nil || voted == nil || !bytes.Equal(voted, blk.Hash) || !bytes.Equal(msg.BlockHeaders[0].Raw, blk.Header) || msg.BlockHeaders[0].Height != d.BlockNumber {
		return
	}
	txid := dsha(d.NoWitnessTx)
	idx := blk.indexOf(txid)
	if idx <= 0 || uint32(idx) != d.TxIndex || !bytes.Equal(d.IntermediateProof, blk.proof(idx)) {
		return // coinbase deposits (maturity) and anything but the genuine proof are not judged here
	}
	tx := new(wire.MsgTx)
	if tx.DeserializeNoWitness(bytes.NewReader(d.NoWitnessTx)) != nil || int(d.OutputIndex) >= len(tx.TxOut) {
		return
	}
	if _, dup := m.Credited[fmt.Sprintf("%x:%d", txid, d.OutputIndex)]; dup {
		return
	}
	if d.RelayerPubkey == nil || !m.Keys[string(relayertypes.EncodePublicKey(d.RelayerPubkey))] {
		return
	}
	var out1 []byte
	if len(tx.TxOut) > 1 {
		out1 = tx.TxOut[1].PkScript
	}
	out := tx.TxOut[d.OutputIndex]
	if (d.Version == 1 && d.OutputIndex != 0) || !refDepositScriptOK(d.Version, d.RelayerPubkey, params.DepositMagicPrefix, d.EvmAddress, out.PkScript, out1) {
		return
	}
	if uint64(out.Value) < params.MinDepositAmount {
		return
	}
	w.Stats.OracleEvals["C03"]++
	w.violate("C03", "valid-deposit-rejected", "rejected", "height %d tx %d: an honestly proven deposit of %d satoshi (bitcoin block %d position %d, voted, script and key valid, never credited) was rejected: %s", bi.B.Height, txi, out.Value, d.BlockNumber, idx, bi.TxRes[txi].Log)
}

package main

// Probe steps: admission matrix (C10), malformed inputs (C19), export / import (C18),
// drained queues (C06 liveness), determinism self-test.

import (
	"bytes"
	"encoding/json"
	"flag"
	"fmt"
	"os"
	"os/exec"
	"reflect"
	"sort"
	"strings"
	"sync"
	"time"

	abci "github.com/cometbft/cometbft/abci/types"
	cmtcrypto "github.com/cometbft/cometbft/proto/tendermint/crypto"
	cmtproto "github.com/cometbft/cometbft/proto/tendermint/types"
	cmttypes "github.com/cometbft/cometbft/types"
	sdk "github.com/cosmos/cosmos-sdk/types"
	"github.com/cosmos/gogoproto/proto"
	"github.com/ethereum/go-ethereum/common"
	"github.com/goatnetwork/goat/verifsim/simrt"
	bitcointypes "github.com/goatnetwork/goat/x/bitcoin/types"
	goatmodtypes "github.com/goatnetwork/goat/x/goat/types"
	lockingtypes "github.com/goatnetwork/goat/x/locking/types"
	relayertypes "github.com/goatnetwork/goat/x/relayer/types"
)

type admissionArgs struct {
	TypeIdx int    `json:"type_idx"`
	Signer  string `json:"signer"` // proposer | voter | outsider | validator | fresh | authority
	Memo    bool   `json:"memo,omitempty"`
	Timeout string `json:"timeout,omitempty"` // "" | past | current | future
	Mix     int    `json:"mix,omitempty"`     // 0: alone; 1: after an allowed message; 2: before an allowed message
	BadSeq  bool   `json:"bad_seq,omitempty"`
	BadSig  bool   `json:"bad_sig,omitempty"`
	Again   bool   `json:"again,omitempty"` // the same bytes are offered to the mempools a second time
	Two     bool   `json:"two_signers,omitempty"`
	InBlock bool   `json:"in_block,omitempty"`
}

type fuzzArgs struct {
	Back    int    `json:"back"`
	Kind    string `json:"kind"`
	Pos     int    `json:"pos"`
	InBlock bool   `json:"in_block,omitempty"`
}

type exportArgs struct {
	K int `json:"k"`
}

func (w *World) msgTypeURLs() []string {
	n := w.refNode()
	if n == nil {
		return nil
	}
	urls := n.App.AppCodec().InterfaceRegistry().ListImplementations(sdk.MsgInterfaceProtoName)
	sort.Strings(urls)
	return urls
}

// minimalMsg builds an instance of a registered message type with its signer field set.
func (w *World) minimalMsg(url, signer string) sdk.Msg {
	n := w.refNode()
	m, err := n.App.AppCodec().InterfaceRegistry().Resolve(url)
	if err != nil {
		return nil
	}
	msg, ok := m.(sdk.Msg)
	if !ok {
		return nil
	}
	v := reflect.ValueOf(msg).Elem()
	for _, name := range []string{"Proposer", "Authority", "FromAddress", "Sender", "Signer", "Admin", "Granter", "Depositor", "DelegatorAddress", "ValidatorAddress"} {
		f := v.FieldByName(name)
		if f.IsValid() && f.Kind() == reflect.String && f.CanSet() {
			f.SetString(signer)
		}
	}
	// give the frequently needed sub-messages something decodable
	switch t := msg.(type) {
	case *bitcointypes.MsgApproveCancellation:
		t.Id = []uint64{1 << 40}
	case *relayertypes.MsgAcceptProposerRequest:
		if cur := w.view(); cur != nil {
			t.Epoch = cur.Relayer.Relayer.Epoch
		}
	case *goatmodtypes.MsgNewEthBlock:
		if cur := w.view(); cur != nil {
			p := cur.Goat.EthBlock
			t.Payload = &p
		}
	}
	return msg
}

func (w *World) applyProbeStep(st Step) (string, bool) {
	switch st.K {
	case "probe.drained":
		return w.probeDrained(), true
	case "probe.admission":
		var a admissionArgs
		if !jsonArgs(st, &a) {
			return "bad-args", true
		}
		if w.view() == nil {
			return "skip:no-state-yet", true
		}
		return w.probeAdmission(a, newRand(st.S, "apply")), true
	case "probe.fuzztx":
		var a fuzzArgs
		if !jsonArgs(st, &a) {
			return "bad-args", true
		}
		if w.view() == nil {
			return "skip:no-state-yet", true
		}
		return w.probeFuzzTx(a, newRand(st.S, "apply")), true
	case "probe.queries":
		var a queriesArgs
		if !jsonArgs(st, &a) {
			return "bad-args", true
		}
		if w.view() == nil {
			return "skip:no-state-yet", true
		}
		return w.probeQueries(a), true
	case "probe.export":
		var a exportArgs
		if !jsonArgs(st, &a) {
			return "bad-args", true
		}
		if w.view() == nil {
			return "skip:no-state-yet", true
		}
		return w.probeExport(a), true
	}
	return "", false
}

func (w *World) genProbeStep(kind string, r *Rand, sub uint64) (Step, bool) {
	switch kind {
	case "probe.admission":
		urls := w.msgTypeURLs()
		if len(urls) == 0 {
			return mkStep("block", w.genBlock(r), sub), true
		}
		a := admissionArgs{TypeIdx: r.Intn(len(urls)), Signer: pick(r, []string{"proposer", "proposer", "voter", "outsider", "validator", "fresh", "authority"}),
			Memo: r.Chance(0.15), Timeout: pick(r, []string{"", "", "past", "last", "last", "current", "future"}), Mix: pick(r, []int{0, 0, 1, 2}), BadSeq: r.Chance(0.08), BadSig: r.Chance(0.12), Two: r.Chance(0.08), InBlock: r.Chance(0.5), Again: r.Chance(0.3)}
		return mkStep("probe.admission", a, sub), true
	case "probe.fuzztx":
		kinds := []string{"flip", "flip", "truncate", "extend", "zero-run", "bitmap-len", "drop-field", "swap-bytes", "huge-varint"}
		return mkStep("probe.fuzztx", fuzzArgs{Back: r.Intn(60), Kind: pick(r, kinds), Pos: r.Intn(1 << 16), InBlock: r.Chance(0.5)}, sub), true
	case "probe.fuzzproposal":
		a := w.genBlock(r)
		a.Rounds = append([]RoundSpec{{Kind: "byz", Mut: pick(r, []string{"garbage-first", "nil-payload", "too-many", "drop-first", "dup-first", "two-msgs", "extra-data-short", "goat-flip", "parent-field", "field-length", "field-length", "field-length", "content-under-same-hash"}), Forced: true}}, a.Rounds...)
		return mkStep("block", a, sub), true
	case "probe.export":
		return mkStep("probe.export", exportArgs{K: 4 + r.Intn(8)}, sub), true
	case "probe.queries":
		a := queriesArgs{Node: r.Intn(maxInt(1, w.Cfg.Nodes)), Version: r.Intn(2)}
		for i, n := 0, 2+r.Intn(5); i < n; i++ {
			a.Users = append(a.Users, r.Intn(len(w.Users)))
		}
		return mkStep("probe.queries", a, sub), true
	}
	return Step{}, false
}

// queriesArgs: several deposit-address queries for different EVM addresses put to one node at the
// same time (a node serves its gRPC queries concurrently). Under the scheduler they are answered
// one after the other; on the race build (free mode) they really run in parallel.
type queriesArgs struct {
	Node    int   `json:"node"`
	Users   []int `json:"users"`
	Version int   `json:"version"`
}

func (w *World) probeQueries(a queriesArgs) string {
	if len(w.Nodes) == 0 || len(a.Users) == 0 {
		return "skip"
	}
	n := w.Nodes[a.Node%len(w.Nodes)]
	if !n.Alive || n.Height == 0 {
		return "skip:no-node"
	}
	type answer struct {
		evm  common.Address
		resp *bitcointypes.QueryDepositAddressResponse
		err  error
	}
	out := make([]answer, len(a.Users))
	ask := func(i int) {
		out[i].evm = w.Users[a.Users[i]%len(w.Users)]
		out[i].resp = &bitcointypes.QueryDepositAddressResponse{}
		out[i].err = n.query("/goat.bitcoin.v1.Query/DepositAddress", &bitcointypes.QueryDepositAddress{Version: uint32(a.Version), EvmAddress: out[i].evm.Hex()}, out[i].resp)
	}
	if simrt.IsFree() {
		var wg sync.WaitGroup
		for i := range out {
			wg.Add(1)
			go func(i int) { defer wg.Done(); ask(i) }(i)
		}
		wg.Wait()
	} else {
		for i := range out {
			ask(i)
		}
	}
	w.probe("deposit-addresses-queried-together")
	// every answer is the address (and data-output script) of the key it names and of the EVM
	// address that was asked for
	for _, o := range out {
		w.Stats.OracleEvals["C17"]++
		if o.err != nil {
			w.checkAddressRefusal(n, uint32(a.Version), o.err)
			continue
		}
		script, ok := w.Btc.payScript(o.resp.Address)
		ref0, ref1, rok := refDepositScripts(uint32(a.Version), o.resp.PublicKey, []byte(w.Cfg.Magic), o.evm.Bytes())
		if !ok || !rok || !bytes.Equal(script, ref0) || (a.Version == 1 && !bytes.Equal(o.resp.OpReturnScript, ref1)) {
			w.violate("C17", "handed-out-address-not-for-requested-target", "query-answer", "node %d answered the deposit-address query for %x (version %d) with address %s / data output %x, which is not the address of that key and target (expected %x / %x)", n.ID, o.evm[:6], a.Version, o.resp.Address, o.resp.OpReturnScript, ref0, ref1)
		}
	}
	return "answered"
}

// ---------------------------------------------------------------------------------------------
// C06 liveness: once the workload stops and nothing fails, everything owed is handed over

func (w *World) probeDrained() string {
	cur := w.view()
	if cur == nil || w.Cmt.Halted != "" {
		return "skip"
	}
	w.Stats.OracleEvals["C06"]++
	o := w.M.Owed
	// items created by the last two blocks cannot have been handed over yet (a proposal is built
	// on the state before its own block)
	var kinds []string
	for k, q := range o.Q {
		old := 0
		for _, it := range q {
			if it.Height <= w.Cmt.Height-2 {
				old++
			}
		}
		if old > 0 {
			kinds = append(kinds, fmt.Sprintf("%s:%d", k, old))
		}
	}
	if len(kinds) > 0 {
		sort.Strings(kinds)
		w.violate("C06", "owed-items-not-delivered", "not-drained", "after the workload stopped and a fault-free tail of blocks, still owed to the execution layer for more than two blocks: %v", kinds)
		return "not-drained"
	}
	w.probe("queues-drained")
	return "drained"
}

// ---------------------------------------------------------------------------------------------
// C10: admission matrix

func (w *World) probeAdmission(a admissionArgs, r *Rand) string {
	urls := w.msgTypeURLs()
	cv := w.chainView()
	n := w.refNode()
	if len(urls) == 0 || cv == nil || cv.Proposer == nil || n == nil {
		return "skip"
	}
	url := urls[a.TypeIdx%len(urls)]
	var key *SecpKey
	switch a.Signer {
	case "proposer":
		key = cv.Proposer.Tx
	case "voter":
		for _, v := range cv.Voters {
			if v != nil {
				key = v.Tx
			}
		}
	case "outsider":
		key = w.member(w.rel().NextMember + 3).Tx
	case "validator":
		key = w.Vals[r.Intn(len(w.Vals))].Key
	case "fresh":
		key = newSecpKey(w.Seed, "fresh", r.Intn(1000))
	case "authority":
		key = cv.Proposer.Tx
	}
	if key == nil {
		key = cv.Proposer.Tx
	}
	signerAddr := key.Bech32()
	if a.Signer == "authority" {
		signerAddr = sdk.AccAddress(sha([]byte("gov"))[:20]).String()
	}
	msg := w.minimalMsg(url, signerAddr)
	if msg == nil {
		return "skip:unresolvable"
	}
	allowed := &relayertypes.MsgAcceptProposerRequest{Proposer: key.Bech32(), Epoch: cv.Rel.Epoch}
	msgs := []sdk.Msg{msg}
	switch a.Mix {
	case 1:
		msgs = []sdk.Msg{allowed, msg}
	case 2:
		msgs = []sdk.Msg{msg, allowed}
	}
	opt := TxOpts{Msgs: msgs, Signer: key, BadSig: a.BadSig}
	if acc := n.App.AccountKeeper.GetAccount(n.App.NewContext(true), key.AccAddress()); acc != nil {
		opt.AccNum, opt.Seq = acc.GetAccountNumber(), acc.GetSequence()
	}
	if a.BadSeq {
		opt.Seq += 3
	}
	if a.Memo {
		opt.Memo = "memo"
	}
	switch a.Timeout {
	case "past":
		opt.TimeoutHeight = uint64(maxInt(1, int(w.Cmt.Height)-1))
	case "last":
		opt.TimeoutHeight = uint64(maxInt(1, int(w.Cmt.Height)))
	case "current":
		opt.TimeoutHeight = uint64(w.Cmt.Height + 1)
	case "future":
		opt.TimeoutHeight = uint64(w.Cmt.Height + 50)
	}
	if a.Two {
		opt.ExtraSigner = w.Vals[0].Key
		if acc := n.App.AccountKeeper.GetAccount(n.App.NewContext(true), opt.ExtraSigner.AccAddress()); acc != nil {
			opt.ExtraAccNum, opt.ExtraSeq = acc.GetAccountNumber(), acc.GetSequence()
		}
	}
	raw, err := w.buildTx(opt)
	if err != nil {
		return "skip:unbuildable"
	}
	w.Stats.Steps["probe.admission/"+strings.TrimPrefix(url, "/")]++
	out := w.submit(raw, msgs, nil, "admission/"+url+"/"+a.Signer, false)
	if a.Again {
		// whatever a node answered the first time, the same bytes get the same judgement again
		// (an admitted transaction is now a duplicate for the mempool, which is a refusal)
		if out2 := w.submit(raw, msgs, nil, "admission-again/"+url+"/"+a.Signer, false); out2 == "admitted" && out != "admitted" {
			w.probe("refused-then-admitted")
		}
	}
	if a.InBlock {
		w.ProbeTxs = append(w.ProbeTxs, raw)
	}
	return out
}

// ---------------------------------------------------------------------------------------------
// C19: malformed transactions

func mutateBytes(raw []byte, kind string, pos int, r *Rand) []byte {
	b := append([]byte{}, raw...)
	if len(b) == 0 {
		return b
	}
	p := pos % len(b)
	switch kind {
	case "flip":
		b[p] ^= 1 << uint(r.Intn(8))
	case "truncate":
		b = b[:p]
	case "extend":
		b = append(b, r.Bytes(1+r.Intn(40))...)
	case "zero-run":
		for i := p; i < len(b) && i < p+8; i++ {
			b[i] = 0
		}
	case "swap-bytes":
		q := (p + 1 + r.Intn(len(b)-1+1)) % len(b)
		b[p], b[q] = b[q], b[p]
	case "huge-varint":
		b = append(append(append([]byte{}, b[:p]...), 0xff, 0xff, 0xff, 0xff, 0xff, 0xff, 0xff, 0xff, 0xff, 0x01), b[p:]...)
	}
	return b
}

func (w *World) probeFuzzTx(a fuzzArgs, r *Rand) string {
	sent := w.rel().Sent
	cv := w.chainView()
	if len(sent) == 0 || cv == nil || cv.Proposer == nil {
		return "skip:nothing-sent"
	}
	st := sent[(len(sent)-1-a.Back%len(sent)+len(sent))%len(sent)]
	var raw []byte
	switch a.Kind {
	case "bitmap-len", "drop-field":
		// structure-aware: re-encode the messages with an odd vote bitmap / without a sub-message
		var msgs []sdk.Msg
		for _, m := range st.Msgs {
			c := protoCloneMsg(m)
			setProposer(c, cv.Proposer.Addr())
			if vm, ok := votedMsg(c); ok && vm.GetVote() != nil {
				v := *vm.GetVote()
				if a.Kind == "bitmap-len" {
					v.Voters = r.Bytes(1 + a.Pos%40)
				} else {
					v.Signature = v.Signature[:a.Pos%(len(v.Signature)+1)]
				}
				setVote(c, &v)
				if a.Kind == "drop-field" && r.Chance(0.5) {
					setVote(c, nil)
				}
			} else if a.Kind == "drop-field" {
				switch t := c.(type) {
				case *bitcointypes.MsgNewDeposits:
					if len(t.Deposits) > 0 {
						t.Deposits[0].RelayerPubkey = nil
					}
					if r.Chance(0.5) {
						t.BlockHeaders = nil
					}
				case *bitcointypes.MsgFinalizeWithdrawal:
					t.BlockHeader = t.BlockHeader[:a.Pos%(len(t.BlockHeader)+1)]
				case *relayertypes.MsgNewVoterRequest:
					t.VoterBlsKey = nil
				}
			}
			msgs = append(msgs, c)
		}
		var err error
		raw, err = w.proposerTx(cv.Proposer, msgs, TxOpts{})
		if err != nil {
			return "skip:unbuildable"
		}
	default:
		raw = mutateBytes(st.Raw, a.Kind, a.Pos, r)
	}
	w.Stats.Steps["probe.fuzztx/"+a.Kind]++
	var msgs []sdk.Msg
	if tx, err := w.decodeTx(raw); err == nil {
		msgs = tx.GetMsgs()
	}
	out := w.submitRaw(raw, msgs, "fuzz/"+a.Kind)
	if a.InBlock {
		w.ProbeTxs = append(w.ProbeTxs, raw)
	}
	return out
}

// submitRaw is submit for bytes that may not decode.
func (w *World) submitRaw(raw []byte, msgs []sdk.Msg, label string) string {
	if msgs != nil {
		return w.submit(raw, msgs, nil, label, false)
	}
	outcome := "rejected"
	for _, n := range w.aliveNodes() {
		if n.Height != w.Cmt.Height {
			continue
		}
		var resp *abci.ResponseCheckTx
		var err error
		out := n.run("checktx", func() { resp, err = n.App.CheckTx(&abci.RequestCheckTx{Tx: raw, Type: abci.CheckTxType_New}) })
		w.Stats.OracleEvals["C19"]++
		if out.Panic != nil {
			w.violate("C19", "checktx-panic", "checktx", "CheckTx panicked on node %d (%s): %v\n%s", n.ID, label, out.Panic, out.Stack)
			continue
		}
		if err == nil && resp != nil && resp.Code == 0 {
			outcome = "admitted"
			w.violate("C10", "undecodable-admitted", "undecodable", "bytes that do not decode as a transaction were admitted to the mempool of node %d (%s)", n.ID, label)
		}
	}
	return outcome
}

// ---------------------------------------------------------------------------------------------
// C18: export, re-import, compare, continue both

func canonicalJSON(b []byte) string {
	var v any
	if json.Unmarshal(b, &v) != nil {
		return string(b)
	}
	o, _ := json.Marshal(v)
	return string(o)
}

func (w *World) probeExport(a exportArgs) string {
	n := w.refNode()
	if n == nil || w.Cmt.Halted != "" {
		return "skip:no-node"
	}
	w.Stats.OracleEvals["C18"]++
	h := w.Cmt.Height
	var exp, exp2 struct {
		state []byte
		vals  []cmttypes.GenesisValidator
		cp    cmtproto.ConsensusParams
		h     int64
		err   any
	}
	doExport := func(node *Node, into *struct {
		state []byte
		vals  []cmttypes.GenesisValidator
		cp    cmtproto.ConsensusParams
		h     int64
		err   any
	}) {
		simrt.SetEnv(node.Env)
		defer func() {
			if r := recover(); r != nil {
				into.err = r
			}
		}()
		e, err := node.App.ExportAppStateAndValidators(false, nil, nil)
		if err != nil {
			into.err = err
			return
		}
		into.state, into.vals, into.cp, into.h = e.AppState, e.Validators, e.ConsensusParams, e.Height
	}
	// like `goatd export`: a freshly started process on the node's disk (no mempool, no check state)
	orig := w.shadow(n, uint64(h)*13+1)
	defer orig.discard()
	if orig.Height != h {
		return "skip:shadow-behind"
	}
	doExport(orig, &exp)
	if exp.err != nil {
		w.violate("C18", "export-fails", "export", "height %d: export failed: %v", h, exp.err)
		return "export-failed"
	}
	// a fresh chain initialised from the export
	shadowSeq++
	imp := &Node{ID: n.ID, W: w, Key: n.Key, DB: newFaultDB(), Home: n.Home, Crashes: shadowSeq}
	imp.EL = newELNode(shadowSeq, w.EL, w.Seed)
	for k := range n.EL.Known {
		imp.EL.Known[k] = true
	}
	imp.EL.Head = n.EL.Head
	imp.Env = &simrt.Env{Node: shadowSeq, EntropySeed: stream(w.Seed, "entropy", shadowSeq), MapSeed: stream(w.Seed, "maporder", shadowSeq)}
	saved := w.InitReq
	w.InitReq = nil
	imp.start()
	w.InitReq = saved
	defer imp.discard()
	req := &abci.RequestInitChain{ChainId: chainID, InitialHeight: exp.h, Time: w.Cmt.Time, ConsensusParams: &exp.cp, AppStateBytes: exp.state}
	for _, v := range exp.vals {
		pk, err := cmtPubToProto(v)
		if err != nil {
			continue
		}
		req.Validators = append(req.Validators, abci.ValidatorUpdate{PubKey: pk, Power: v.Power})
	}
	var resp *abci.ResponseInitChain
	var ierr error
	out := imp.run("initchain", func() { resp, ierr = imp.App.InitChain(req) })
	if out.Panic != nil || ierr != nil {
		w.violate("C18", "import-fails", importShape(out.Panic, ierr), "height %d: a fresh chain cannot be initialised from the exported state: panic=%v err=%v", h, out.Panic, ierr)
		return "import-failed"
	}
	w.probe("export-imported")
	// the initial validator set is the exported active set
	want := map[string]int64{}
	for _, v := range exp.vals {
		want[string(v.PubKey.Bytes())] = v.Power
	}
	got := map[string]int64{}
	for _, u := range resp.Validators {
		got[string(u.PubKey.GetSecp256K1())] = u.Power
	}
	if len(resp.Validators) > 0 && !reflect.DeepEqual(want, got) {
		w.violate("C18", "imported-validator-set-differs", "valset", "height %d: InitChain of the re-imported state returned %d validators, exported %d", h, len(got), len(want))
	}
	if len(exp.vals) == 0 {
		w.violate("C18", "exported-validator-set-empty", "empty-valset", "height %d: the export lists no validators", h)
	}
	// first block on the imported chain commits the genesis; compare after that: drive both
	// the original (on a fork of its disk) and the imported chain with the same blocks
	actor := w.Vals[0]
	vals := exp.vals
	t := w.Cmt.Time
	var lastCommit abci.CommitInfo
	for i := 0; i < a.K; i++ {
		height := exp.h + int64(i)
		t = t.Add(w.Cfg.blockDur())
		simrt.Advance(w.Cfg.blockDur())
		eci := abci.ExtendedCommitInfo{}
		ci := abci.CommitInfo{}
		if i > 0 || height > 1 {
			for _, v := range vals {
				val := abci.Validator{Address: v.Address, Power: v.Power}
				ci.Votes = append(ci.Votes, abci.VoteInfo{Validator: val, BlockIdFlag: cmtproto.BlockIDFlagCommit})
				eci.Votes = append(eci.Votes, abci.ExtendedVoteInfo{Validator: val, BlockIdFlag: cmtproto.BlockIDFlagCommit})
			}
		}
		lastCommit = ci
		proposer := actor.Key.CmtPriv().PubKey().Address()
		var prep *abci.ResponsePrepareProposal
		o1 := orig.run("prepare", func() {
			prep, _ = orig.App.PrepareProposal(&abci.RequestPrepareProposal{MaxTxBytes: 4 << 20, LocalLastCommit: eci, Height: height, Time: t, ProposerAddress: proposer})
		})
		if o1.Panic != nil || prep == nil || len(prep.Txs) == 0 {
			break
		}
		hash := blockHashOf(height, 0, t, proposer, prep.Txs, nil)
		fb := &abci.RequestFinalizeBlock{Txs: prep.Txs, DecidedLastCommit: lastCommit, Hash: hash, Height: height, Time: t, ProposerAddress: proposer}
		var r1, r2 *abci.ResponseFinalizeBlock
		var e1, e2 error
		oa := orig.run("finalize", func() { r1, e1 = orig.App.FinalizeBlock(fb) })
		ob := imp.run("finalize", func() { r2, e2 = imp.App.FinalizeBlock(fb) })
		if oa.Panic != nil || e1 != nil {
			break // the original itself cannot continue (e.g. the engine); nothing to compare
		}
		if ob.Panic != nil || e2 != nil {
			w.violate("C18", "imported-chain-cannot-continue", importShape(ob.Panic, e2), "height %d (+%d): the re-imported chain fails a block the original executes: panic=%v err=%v", h, i, ob.Panic, e2)
			return "diverged"
		}
		d1, d2 := fbDigestNoHash(r1), fbDigestNoHash(r2)
		if d1 != d2 {
			w.violate("C18", "imported-chain-behaves-differently", diffShape(d1, d2), "height %d (+%d): same block, different results\n original: %s\n imported: %s", h, i, d1, d2)
			return "diverged"
		}
		orig.run("commit", func() { orig.App.Commit() })
		imp.run("commit", func() { imp.App.Commit() })
		orig.Height, imp.Height = height, height
		// module stores must hold the same contents
		m1, m2 := orig.moduleDigest(false), imp.moduleDigest(false)
		for _, name := range []string{"relayer", "bitcoin", "locking", "goat", "acc"} {
			if m1[name] != m2[name] {
				d1, d2 := orig.storeDump(name), imp.storeDump(name)
				keys := diffDumps(d1, d2)
				if len(keys) > 4 {
					keys = keys[:4]
				}
				if len(keys) > 0 {
					w.note("export", fmt.Sprintf("store %s key %s: original %s imported %s", name, keys[0], d1[keys[0]], d2[keys[0]]))
				}
				shape := name + ":" + storeKeyShape(keys)
				if name == "relayer" && len(keys) > 0 {
					shape = relayerDiffShape(keys[0], d1[keys[0]], d2[keys[0]], shape)
				}
				w.violate("C18", "imported-state-differs", shape, "height %d (+%d): store %q differs between the original and the re-imported chain at keys %v", h, i, name, keys)
				return "diverged"
			}
		}
		if i == 0 {
			// second export equals the first one taken at the same point of the original
			doExport(imp, &exp2)
			var expO struct {
				state []byte
				vals  []cmttypes.GenesisValidator
				cp    cmtproto.ConsensusParams
				h     int64
				err   any
			}
			doExport(orig, &expO)
			if exp2.err != nil {
				w.violate("C18", "second-export-fails", "export2", "height %d: exporting the re-imported chain failed: %v", h, exp2.err)
				return "diverged"
			}
			if expO.err == nil && canonicalJSON(exp2.state) != canonicalJSON(expO.state) {
				w.violate("C18", "second-export-differs", exportDiffShape(expO.state, exp2.state), "height %d: export of the re-imported chain differs from the export of the original at the same height (%s)", h, exportDiffShape(expO.state, exp2.state))
				return "diverged"
			}
		}
	}
	w.probe("export-continued")
	return "equivalent"
}

func storeKeyShape(keys []string) string {
	if len(keys) == 0 {
		return ""
	}
	k := keys[0]
	if len(k) > 2 {
		k = k[:2]
	}
	return "prefix" + k
}

func importShape(p any, err error) string {
	s := fmt.Sprint(p, err)
	for _, k := range []string{"invalid bls pubkey length", "invalid deposit tax", "MaxDepositTax is too large", "minimal deposit", "duplicated", "missing proposer", "No relayer voters", "doesn't exists"} {
		if strings.Contains(s, k) {
			return k
		}
	}
	if len(s) > 60 {
		s = s[:60]
	}
	return s
}

func exportDiffShape(a, b []byte) string {
	var ma, mb map[string]json.RawMessage
	if json.Unmarshal(a, &ma) != nil || json.Unmarshal(b, &mb) != nil {
		return "unparsable"
	}
	var diff []string
	for k := range ma {
		if canonicalJSON(ma[k]) != canonicalJSON(mb[k]) {
			diff = append(diff, k)
		}
	}
	sort.Strings(diff)
	return strings.Join(diff, "+")
}

func fbDigestNoHash(r *abci.ResponseFinalizeBlock) string {
	s := fbDigest(r)
	if i := strings.Index(s, ";"); i >= 0 {
		return s[i+1:]
	}
	return s
}

func cmtPubToProto(v cmttypes.GenesisValidator) (pk cmtcrypto.PublicKey, err error) {
	return cmtcrypto.PublicKey{Sum: &cmtcrypto.PublicKey_Secp256K1{Secp256K1: v.PubKey.Bytes()}}, nil
}

// ---------------------------------------------------------------------------------------------
// determinism self-test: the same seed must give the same event trace in every process, at
// every GOMAXPROCS

func selftest(args []string) int {
	fs := flag.NewFlagSet("selftest", flag.ExitOnError)
	tier := fs.String("tier", "quick", "")
	bin := fs.String("bin", "", "")
	fs.Parse(args)
	self := *bin
	if self == "" {
		self, _ = os.Executable()
	}
	seeds := 32
	if *tier == "thorough" {
		seeds = 96
	}
	profiles := make([]string, 0, len(profileWeights))
	for p := range profileWeights {
		profiles = append(profiles, p)
	}
	sort.Strings(profiles)
	type job struct {
		seed    int
		profile string
	}
	jobs := make(chan job)
	var mu sync.Mutex
	bad := 0
	runs := 0
	var wg sync.WaitGroup
	for wk := 0; wk < 16; wk++ {
		wg.Add(1)
		go func() {
			defer wg.Done()
			for j := range jobs {
				var first string
				for _, procs := range []string{"1", "4", "16"} {
					for rep := 0; rep < 2; rep++ {
						cmd := exec.Command(self, "one", "-profile", j.profile, "-seed", fmt.Sprint(j.seed), "-traceonly")
						cmd.Env = append(os.Environ(), "GOMAXPROCS="+procs)
						out, err := cmd.Output()
						tr := strings.TrimSpace(string(out))
						mu.Lock()
						runs++
						if err != nil || tr == "" {
							fmt.Fprintf(os.Stderr, "selftest: seed %d profile %s GOMAXPROCS=%s: run failed: %v\n", j.seed, j.profile, procs, err)
							bad++
						} else if first == "" {
							first = tr
						} else if tr != first {
							fmt.Fprintf(os.Stderr, "selftest: NONDETERMINISM seed %d profile %s GOMAXPROCS=%s: trace %s != %s\n", j.seed, j.profile, procs, tr, first)
							bad++
						}
						mu.Unlock()
					}
				}
			}
		}()
	}
	for s := 1; s <= seeds; s++ {
		jobs <- job{s, profiles[s%len(profiles)]}
	}
	close(jobs)
	wg.Wait()
	fmt.Printf("selftest: %d executions of %d seeds (2 repetitions x GOMAXPROCS 1/4/16), %d mismatches\n", runs, seeds, bad)
	if bad > 0 {
		return 2
	}
	return 0
}

var _ = bytes.Equal
var _ = proto.Marshal
var _ = time.Second
var _ = lockingtypes.ModuleName

// relayerDiffShape tells an ordering difference of the same members from a difference in content.
func relayerDiffShape(key, a, b, dflt string) string {
	ra, rb := common.FromHex(a), common.FromHex(b)
	set := func(xs []string) string {
		c := append([]string{}, xs...)
		sort.Strings(c)
		return strings.Join(c, ",")
	}
	switch key {
	case "05":
		var qa, qb relayertypes.VoterQueue
		if qa.Unmarshal(ra) == nil && qb.Unmarshal(rb) == nil && set(qa.OnBoarding) == set(qb.OnBoarding) && set(qa.OffBoarding) == set(qb.OffBoarding) {
			return "relayer:queue-order"
		}
	case "01":
		var xa, xb relayertypes.Relayer
		if xa.Unmarshal(ra) == nil && xb.Unmarshal(rb) == nil && xa.Epoch == xb.Epoch && set(append(xa.Voters, xa.Proposer)) == set(append(xb.Voters, xb.Proposer)) {
			return "relayer:member-order"
		}
	}
	return dflt
}

package main

import (
	"fmt"
	"math/big"
	"strings"
	"time"

	"github.com/ethereum/go-ethereum/common"
	"github.com/ethereum/go-ethereum/core/types/goattypes"
	"github.com/goatnetwork/goat/verifsim/simrt"
	lockingtypes "github.com/goatnetwork/goat/x/locking/types"
)

var simEpochVal = simrt.Epoch

func addrFromBech32(s string) ([]byte, error) {
	return sdkAccFromBech32(s)
}

// ---------------------------------------------------------------------------------------------
// C12: rewards

func (w *World) oracleRewards(bi *BlockInfo) {
	m, b, cur, prev := w.M, bi.B, w.M.Cur, w.M.Prev
	w.Stats.OracleEvals["C12"]++
	lk := cur.Locking
	params := lk.Params
	pool := lk.RewardPool

	grants, gas := new(big.Int), new(big.Int)
	if bi.MsgOK && bi.ReqErr == nil {
		for _, g := range bi.LockingReq.Grants {
			grants.Add(grants, g.Amount)
		}
		for _, g := range bi.LockingReq.Gas {
			if g.Amount.Sign() > 0 {
				gas.Add(gas, g.Amount)
			}
		}
		m.In.Add(m.In, grants)
		m.In.Add(m.In, gas)
	}
	if bi.MsgOK && bi.ELBlock != nil {
		for _, g := range bi.ELBlock.GoatTxs {
			if r, ok := g.Tx.(*goattypes.DistributeRewardTx); ok {
				m.PaidOut.Add(m.PaidOut, r.Goat)
				m.PaidOut.Add(m.PaidOut, r.GasReward)
				w.probe("reward-delivered")
			}
		}
	}
	// conservation and signs
	total := new(big.Int).Add(pool.Remain.BigInt(), pool.Goat.BigInt())
	total.Add(total, pool.Gas.BigInt())
	if pool.Remain.IsNegative() || pool.Goat.IsNegative() || pool.Gas.IsNegative() {
		w.violate("C12", "negative-pool", "negative-pool", "height %d: reward pool remain=%s goat=%s gas=%s", b.Height, pool.Remain, pool.Goat, pool.Gas)
	}
	for _, v := range lk.Validators {
		if v.Reward.IsNegative() || v.GasReward.IsNegative() {
			w.violate("C12", "negative-accrual", "negative-accrual", "height %d: validator %x reward=%s gas=%s", b.Height, cmtAddr(v.Pubkey)[:4], v.Reward, v.GasReward)
		}
		total.Add(total, v.Reward.BigInt())
		total.Add(total, v.GasReward.BigInt())
	}
	queued := map[uint64]*lockingtypes.Reward{}
	for _, r := range lk.EthTxQueue.Rewards {
		if r.Goat.IsNegative() || r.Gas.IsNegative() {
			w.violate("C12", "negative-payout", "negative-payout", "height %d: queued reward %d goat=%s gas=%s", b.Height, r.Id, r.Goat, r.Gas)
		}
		total.Add(total, r.Goat.BigInt())
		total.Add(total, r.Gas.BigInt())
		queued[r.Id] = r
	}
	total.Add(total, m.PaidOut)
	if total.Cmp(m.In) != 0 {
		w.violate("C12", "conservation", "conservation", "height %d: granted+gas %s != pools+accrued+claimed %s (remain=%s goat=%s gas=%s paid=%s)", b.Height, m.In, total, pool.Remain, pool.Goat, pool.Gas, m.PaidOut)
	}

	// emission schedule
	prevRemain := m.GenRemain
	prevGoat, prevGas := new(big.Int), new(big.Int)
	if prev != nil {
		prevRemain = prev.Locking.RewardPool.Remain.BigInt()
		prevGoat = prev.Locking.RewardPool.Goat.BigInt()
		prevGas = prev.Locking.RewardPool.Gas.BigInt()
	}
	moved := new(big.Int)
	if bi.MsgOK {
		reward := big.NewInt(params.InitialBlockReward)
		halvings := b.Height / params.HalvingInterval
		if halvings > 0 {
			if halvings >= 63 {
				reward.SetInt64(0)
			} else {
				reward.Rsh(reward, uint(halvings))
			}
			w.probe("halving-boundary-crossed")
		}
		avail := new(big.Int).Add(prevRemain, grants)
		if reward.Cmp(avail) > 0 {
			reward.Set(avail)
			w.probe("grant-exhausted")
		}
		moved = reward
	}
	wantRemain := new(big.Int).Add(prevRemain, grants)
	wantRemain.Sub(wantRemain, moved)
	if pool.Remain.BigInt().Cmp(wantRemain) != 0 {
		w.violate("C12", "emission", "emission", "height %d: remaining grant %s, expected %s (previous %s + grants %s - block reward %s)", b.Height, pool.Remain, wantRemain, prevRemain, grants, moved)
	}

	// distribution among the previous block's validators
	if b.Height >= 2 && prev != nil {
		var P int64
		for _, v := range b.LastCommit.Votes {
			P += v.Validator.Power
		}
		claimed := map[string][2]*big.Int{}
		if bi.MsgOK && bi.ReqErr == nil {
			for _, c := range bi.LockingReq.Claims {
				a := string(c.Validator.Bytes())
				q := queued[c.Id]
				if q == nil {
					continue
				}
				cur := claimed[a]
				if cur[0] == nil {
					cur = [2]*big.Int{new(big.Int), new(big.Int)}
				}
				cur[0].Add(cur[0], q.Goat.BigInt())
				cur[1].Add(cur[1], q.Gas.BigInt())
				claimed[a] = cur
				w.probe("claim-requested")
			}
		}
		sumGoat, sumGas := new(big.Int), new(big.Int)
		inVotes := map[string]int64{}
		for _, v := range b.LastCommit.Votes {
			inVotes[string(v.Validator.Address)] = v.Validator.Power
		}
		for a, cv := range cur.Vals {
			pv := prev.Vals[a]
			if pv == nil {
				continue
			}
			dGoat := new(big.Int).Sub(cv.Reward.BigInt(), pv.Reward.BigInt())
			dGas := new(big.Int).Sub(cv.GasReward.BigInt(), pv.GasReward.BigInt())
			if c, ok := claimed[a]; ok {
				dGoat.Add(dGoat, c[0])
				dGas.Add(dGas, c[1])
			}
			p, voted := inVotes[a]
			if !voted {
				if dGoat.Sign() != 0 || dGas.Sign() != 0 {
					w.violate("C12", "reward-to-non-validator", "non-validator", "height %d: validator %x was not in the previous block's set but accrued goat %s gas %s", b.Height, []byte(a)[:4], dGoat, dGas)
				}
				continue
			}
			sumGoat.Add(sumGoat, dGoat)
			sumGas.Add(sumGas, dGas)
			if P > 0 {
				checkShare(w, b.Height, a, "goat", dGoat, prevGoat, p, P)
				checkShare(w, b.Height, a, "gas", dGas, prevGas, p, P)
			}
		}
		if sumGoat.Cmp(prevGoat) > 0 || sumGas.Cmp(prevGas) > 0 {
			w.violate("C12", "shares-exceed-pool", "shares-exceed-pool", "height %d: shares goat %s of pool %s, gas %s of pool %s (%d validators, total power %d)", b.Height, sumGoat, prevGoat, sumGas, prevGas, len(b.LastCommit.Votes), P)
		}
		wantGoat := new(big.Int).Sub(prevGoat, sumGoat)
		wantGoat.Add(wantGoat, moved)
		wantGas := new(big.Int).Sub(prevGas, sumGas)
		wantGas.Add(wantGas, gas)
		if pool.Goat.BigInt().Cmp(wantGoat) != 0 || pool.Gas.BigInt().Cmp(wantGas) != 0 {
			w.violate("C12", "pool-carry-over", "carry-over", "height %d: pools goat %s gas %s, expected goat %s gas %s (dust carried over plus this block's intake)", b.Height, pool.Goat, pool.Gas, wantGoat, wantGas)
		}
		if len(b.LastCommit.Votes) >= 3 {
			w.probe("distribution-among-3+")
		}
	}
}

// checkShare: |share - pool*p/P| <= 1 + pool*1e-18
func checkShare(w *World, h int64, a, kind string, share, pool *big.Int, p, P int64) {
	ideal := new(big.Rat).SetFrac(new(big.Int).Mul(pool, big.NewInt(p)), big.NewInt(P))
	diff := new(big.Rat).Sub(new(big.Rat).SetInt(share), ideal)
	diff.Abs(diff)
	tol := new(big.Rat).SetFrac(pool, new(big.Int).Exp(big.NewInt(10), big.NewInt(18), nil))
	tol.Add(tol, big.NewRat(1, 1))
	if diff.Cmp(tol) > 0 {
		w.violate("C12", "share-not-proportional", "share-"+kind, "height %d: validator %x got %s of the %s pool %s with power %d/%d (ideal %s)", h, []byte(a)[:4], share, kind, pool, p, P, ideal.FloatString(3))
	}
}

// ---------------------------------------------------------------------------------------------
// C06: owed ledger vs. execution-layer ledger

type owedItem struct {
	Kind   string // btcblock | deposit | paid | refund | reward | unlock
	Key    string
	Detail string
	Height int64 // consensus height of the event that created it
}

type owedLedger struct {
	Q         map[string][]*owedItem // per kind, FIFO
	Delivered int
	ByKind    map[string]int
	Once      map[string]int64 // things that can be owed only once in the lifetime of the chain -> height
	Twice     []string         // ... that became owed a second time (reported by oracleQueues, C06)
}

func newOwedLedger() *owedLedger {
	return &owedLedger{Q: map[string][]*owedItem{}, ByKind: map[string]int{}, Once: map[string]int64{}}
}

func (o *owedLedger) owe(kind, key, detail string, h int64) {
	o.Q[kind] = append(o.Q[kind], &owedItem{kind, key, detail, h})
	// a withdrawal is refunded or paid once, an output is credited once, an unlock is released once
	id := ""
	switch kind {
	case "refund":
		id = "withdrawal:" + key
	case "paid":
		id = "withdrawal:" + strings.SplitN(key, ":", 2)[0]
	case "deposit":
		if p := strings.SplitN(key, ":", 3); len(p) >= 2 {
			id = "deposit:" + p[0] + ":" + p[1]
		}
	}
	if id != "" {
		if at, dup := o.Once[id]; dup {
			o.Twice = append(o.Twice, fmt.Sprintf("%s (%s) became owed to the execution layer at height %d and again at height %d", id, detail, at, h))
		}
		o.Once[id] = h
	}
}

func (o *owedLedger) pending() int {
	n := 0
	for _, q := range o.Q {
		n += len(q)
	}
	return n
}

func goatTxKey(g *GoatTxInfo) (kind, key string) {
	switch t := g.Tx.(type) {
	case *goattypes.NewBtcBlockTx:
		return "btcblock", fmt.Sprintf("%x", t.Hash[:])
	case *goattypes.DepositTx:
		return "deposit", fmt.Sprintf("%x:%d:%x:%s:%s", t.Txid[:], t.TxOut, t.Target[:], t.Amount, t.Tax)
	case *goattypes.PaidTx:
		return "paid", fmt.Sprintf("%s:%x:%d:%s", t.Id, t.Txid[:], t.TxOut, t.Amount)
	case *goattypes.Cancel2Tx:
		return "refund", t.Id.String()
	case *goattypes.DistributeRewardTx:
		return "reward", fmt.Sprintf("%d:%x", t.Id, t.Recipient[:])
	case *goattypes.CompleteUnlockTx:
		return "unlock", fmt.Sprintf("%d:%x:%x:%s", t.Id, t.Recipient[:], t.Token[:], t.Amount)
	}
	return "unknown", ""
}

func (w *World) oracleHandover(bi *BlockInfo) {
	m, b, cur, prev := w.M, bi.B, w.M.Cur, w.M.Prev
	w.Stats.OracleEvals["C06"]++
	o := m.Owed

	// 1. what the execution layer was told in this block must be the heads of the owed queues
	if bi.MsgOK && bi.ELBlock != nil {
		if n := len(bi.ELBlock.GoatTxs); n > 0 {
			w.probe("system-txs-delivered")
			if n >= 16 {
				w.probe("system-txs-16+")
			}
		}
		perKind := map[string]int{}
		for _, g := range bi.ELBlock.GoatTxs {
			k, _ := goatTxKey(g)
			if k == "refund" {
				k = "paid" // paid and refunded withdrawals share one cap
			}
			perKind[k]++
		}
		for _, kc := range []struct {
			kind string
			cap  int
		}{{"btcblock", 1}, {"deposit", 8}, {"paid", 8}, {"reward", 16}, {"unlock", 16}} {
			if perKind[kc.kind] > kc.cap {
				w.violate("C06", "per-block-cap-exceeded", "cap-"+kc.kind, "height %d: %d %s system transactions in one execution block, cap %d", b.Height, perKind[kc.kind], kc.kind, kc.cap)
			}
			if perKind[kc.kind] == kc.cap && kc.cap > 1 {
				w.probe("handover-at-cap-" + kc.kind)
			}
		}
		for _, g := range bi.ELBlock.GoatTxs {
			switch g.Module {
			case goattypes.BirdgeModule:
				if g.Nonce != m.BridgeNonce {
					w.violate("C06", "nonce-gap", "bridge-nonce", "height %d: bridge system tx nonce %d, expected %d", b.Height, g.Nonce, m.BridgeNonce)
				}
				m.BridgeNonce = g.Nonce + 1
			case goattypes.LockingModule:
				if g.Nonce != m.LockingNonce {
					w.violate("C06", "nonce-gap", "locking-nonce", "height %d: locking system tx nonce %d, expected %d", b.Height, g.Nonce, m.LockingNonce)
				}
				m.LockingNonce = g.Nonce + 1
			}
			kind, key := goatTxKey(g)
			q := o.Q[kind]
			if len(q) == 0 {
				w.violate("C06", "invented-item", "invented-"+kind, "height %d: execution layer was told %s but nothing of that kind is owed", b.Height, g)
				continue
			}
			if q[0].Key != key {
				// duplicated, reordered or altered
				found := -1
				for i, it := range q {
					if it.Key == key {
						found = i
						break
					}
				}
				if found < 0 {
					w.violate("C06", "altered-or-duplicated-item", "altered-"+kind, "height %d: execution layer was told %s; owed next is %s (%s)", b.Height, g, q[0].Key, q[0].Detail)
					continue
				}
				w.violate("C06", "out-of-order", "order-"+kind, "height %d: %s delivered before %d older owed items of its kind", b.Height, g, found)
				o.Q[kind] = append(q[:found:found], q[found+1:]...)
			} else {
				o.Q[kind] = q[1:]
			}
			o.Delivered++
			o.ByKind[kind]++
		}
	}

	// 2. new obligations created by this block
	// 2a. from the successful block message: claims, address-rejected withdrawals
	if bi.MsgOK && bi.ReqErr == nil {
		for _, c := range bi.LockingReq.Claims {
			o.owe("reward", fmt.Sprintf("%d:%x", c.Id, c.Recipient[:]), "claim", b.Height)
		}
		for _, wd := range bi.Bridge.Withdraws {
			if !w.Btc.addressPayable(wd.Address) {
				o.owe("refund", fmt.Sprintf("%d", wd.Id), "undecodable address", b.Height)
				w.probe("withdrawal-refunded-at-creation")
			}
		}
	}
	// 2b. matured unlocks: whatever newly entered the delivery queue, in the order it entered
	prevLen := 0
	prevIDs := map[string]bool{}
	if prev != nil {
		for _, u := range prev.Locking.EthTxQueue.Unlocks {
			prevIDs[unlockKey(u)] = true
		}
		prevLen = len(prev.Locking.EthTxQueue.Unlocks)
	}
	_ = prevLen
	// entries present now or delivered in this block that were not in the queue before
	if prev != nil {
		matured := map[string]bool{}
		var maturedOrder []*lockingtypes.Unlock
		for _, q := range prev.Locking.UnlockQueue {
			if !q.Timestamp.After(b.Time) {
				for _, u := range q.Unlocks {
					matured[unlockKey(u)] = true
					maturedOrder = append(maturedOrder, u)
				}
			}
		}
		if len(maturedOrder) > 16 {
			w.probe("more-matured-unlocks-than-cap")
		}
		for _, u := range maturedOrder {
			o.owe("unlock", unlockKey(u), "matured", b.Height)
		}
		// nothing may enter the delivery queue without having matured
		for _, u := range cur.Locking.EthTxQueue.Unlocks {
			k := unlockKey(u)
			if !prevIDs[k] && !matured[k] {
				w.violate("C15", "unmatured-unlock-queued", "unmatured", "height %d (%s): unlock %d entered the delivery queue without a matured entry in the time queue", b.Height, b.Time.Format(time.RFC3339), u.Id)
			}
		}
		// and entries that have not matured stay in the time queue
		for _, q := range cur.Locking.UnlockQueue {
			if !q.Timestamp.After(b.Time) {
				w.violate("C15", "matured-unlock-not-swept", "not-swept", "height %d (%s): unlock queue still holds an entry maturing at %s", b.Height, b.Time.Format(time.RFC3339), q.Timestamp.Format(time.RFC3339))
			}
		}
	}
	// 2c. relayer-side obligations (hashes, deposits, paid, refunds) are added by oracleBitcoin
	//     from accepted transactions.

	// 3. voted bitcoin block hashes: gap-free, append-only
	w.oracleBtcHashes(bi)
}

// oracleQueues: C06, "never dropped, duplicated or invented" judged at rest: after every block what
// is owed and not yet handed over is exactly what sits in the modules' hand-over queues.
func (w *World) oracleQueues(bi *BlockInfo) {
	o, cur, b := w.M.Owed, w.M.Cur, bi.B
	w.Stats.OracleEvals["C06"]++
	for _, tw := range o.Twice {
		w.violate("C06", "item-owed-twice", "duplicated", "height %d: %s", b.Height, tw)
	}
	o.Twice = nil
	have := map[string]int{
		"reward":  len(cur.Locking.EthTxQueue.Rewards),
		"unlock":  len(cur.Locking.EthTxQueue.Unlocks),
		"deposit": len(cur.Bitcoin.EthTxQueue.Deposits),
		"paid":    len(cur.Bitcoin.EthTxQueue.PaidWithdrawals),
		"refund":  len(cur.Bitcoin.EthTxQueue.RejectedWithdrawals),
	}
	for _, kind := range []string{"reward", "unlock", "deposit", "paid", "refund"} {
		owed := len(o.Q[kind])
		if owed == have[kind] {
			continue
		}
		key := fmt.Sprintf("queue-mismatch:%s:%d:%d", kind, owed, have[kind])
		if w.seenOnce(key) {
			continue
		}
		if owed > have[kind] {
			w.violate("C06", "owed-item-not-queued", "dropped-"+kind, "height %d: %d %s items are owed to the execution layer but the hand-over queue holds %d (next owed: %s, %s)", b.Height, owed, kind, have[kind], o.Q[kind][0].Key, o.Q[kind][0].Detail)
		} else {
			w.violate("C06", "queued-item-not-owed", "invented-"+kind, "height %d: the %s hand-over queue holds %d items but only %d are owed", b.Height, kind, have[kind], owed)
		}
	}
}

func unlockKey(u *lockingtypes.Unlock) string {
	return fmt.Sprintf("%d:%x:%x:%s", u.Id, common.BytesToAddress(u.Recipient), common.BytesToAddress(u.Token), u.Amount.BigInt())
}

// abstractState buckets the committed state for the "distinct states reached" measure.
func (w *World) abstractState(bi *BlockInfo) {
	cur := w.M.Cur
	bucket := func(n int) int {
		switch {
		case n == 0:
			return 0
		case n < 4:
			return 1
		case n < 16:
			return 2
		}
		return 3
	}
	st := map[string]int{}
	for _, v := range cur.Locking.Validators {
		st[v.Status.String()]++
	}
	ws := map[string]int{}
	for _, wd := range cur.Bitcoin.Withdrawals {
		ws[wd.Withdrawal.Status.String()]++
	}
	var sb strings.Builder
	fmt.Fprintf(&sb, "v=%v|set=%d|w=%v|dq=%d,%d,%d|lq=%d,%d|uq=%d|voters=%d|q=%d,%d|acc=%v", st, len(cur.ValSet), ws,
		bucket(len(cur.Bitcoin.EthTxQueue.Deposits)), bucket(len(cur.Bitcoin.EthTxQueue.PaidWithdrawals)), bucket(len(cur.Bitcoin.EthTxQueue.RejectedWithdrawals)),
		bucket(len(cur.Locking.EthTxQueue.Rewards)), bucket(len(cur.Locking.EthTxQueue.Unlocks)), bucket(len(cur.Locking.UnlockQueue)),
		len(cur.Relayer.Relayer.Voters), len(w.M.Rel.onboarding(cur)), len(w.M.Rel.offboarding(cur)), cur.Relayer.Relayer.ProposerAccepted)
	w.Stats.AbstractStates[sb.String()] = true
}

package main

import (
	"context"
	"fmt"

	"github.com/cosmos/cosmos-sdk/client"
	clienttx "github.com/cosmos/cosmos-sdk/client/tx"
	"github.com/cosmos/cosmos-sdk/codec"
	sdk "github.com/cosmos/cosmos-sdk/types"
	"github.com/cosmos/cosmos-sdk/types/tx/signing"
	xauthsigning "github.com/cosmos/cosmos-sdk/x/auth/signing"
	authtx "github.com/cosmos/cosmos-sdk/x/auth/tx"
	authtypes "github.com/cosmos/cosmos-sdk/x/auth/types"
)

var cachedTxConfig client.TxConfig

func (w *World) txConfig() client.TxConfig {
	if cachedTxConfig == nil {
		for _, n := range w.Nodes {
			if n.App != nil {
				cdc := codec.NewProtoCodec(n.App.AppCodec().InterfaceRegistry())
				cachedTxConfig = authtx.NewTxConfig(cdc, authtx.DefaultSignModes)
				break
			}
		}
	}
	return cachedTxConfig
}

type TxOpts struct {
	Msgs          []sdk.Msg
	Signer        *SecpKey
	AccNum        uint64
	Seq           uint64
	TimeoutHeight uint64
	Memo          string
	GasLimit      uint64
	ChainID       string
	BadSig        bool
	ExtraSigner   *SecpKey // second signature (multi-signer probes)
	ExtraAccNum   uint64
	ExtraSeq      uint64
}

// plain: no option that changes how the transaction is wrapped or signed.
func (o TxOpts) plain() bool {
	return o.Seq == 0 && o.TimeoutHeight == 0 && o.Memo == "" && o.GasLimit == 0 && o.ChainID == "" && !o.BadSig && o.ExtraSigner == nil && o.Signer == nil
}

// buildTx signs a transaction the way the relayer / the block proposer do (SIGN_MODE_DIRECT).
func (w *World) buildTx(o TxOpts) ([]byte, error) {
	cfg := w.txConfig()
	b := cfg.NewTxBuilder()
	if err := b.SetMsgs(o.Msgs...); err != nil {
		return nil, err
	}
	if o.GasLimit == 0 {
		o.GasLimit = 10_000_000
	}
	if o.ChainID == "" {
		o.ChainID = chainID
	}
	b.SetGasLimit(o.GasLimit)
	b.SetTimeoutHeight(o.TimeoutHeight)
	b.SetMemo(o.Memo)
	mode := signing.SignMode(cfg.SignModeHandler().DefaultMode())
	type sg struct {
		k        *SecpKey
		acc, seq uint64
	}
	signers := []sg{{o.Signer, o.AccNum, o.Seq}}
	if o.ExtraSigner != nil {
		signers = append(signers, sg{o.ExtraSigner, o.ExtraAccNum, o.ExtraSeq})
	}
	var empty []signing.SignatureV2
	for _, s := range signers {
		empty = append(empty, signing.SignatureV2{PubKey: s.k.Priv.PubKey(), Data: &signing.SingleSignatureData{SignMode: mode}, Sequence: s.seq})
	}
	if err := b.SetSignatures(empty...); err != nil {
		return nil, err
	}
	var sigs []signing.SignatureV2
	for _, s := range signers {
		sig, err := clienttx.SignWithPrivKey(context.Background(), mode, xauthsigning.SignerData{
			Address: s.k.Bech32(), ChainID: o.ChainID, AccountNumber: s.acc, Sequence: s.seq, PubKey: s.k.Priv.PubKey(),
		}, b, s.k.Priv, cfg, s.seq)
		if err != nil {
			return nil, err
		}
		if o.BadSig {
			d := sig.Data.(*signing.SingleSignatureData)
			d.Signature[5] ^= 0x40
		}
		sigs = append(sigs, sig)
	}
	if err := b.SetSignatures(sigs...); err != nil {
		return nil, err
	}
	raw, err := cfg.TxEncoder()(b.GetTx())
	if err == nil && o.BadSig {
		// ground truth for the admission oracles: these bytes carry a signature that does not verify
		if w.BadSigTx == nil {
			w.BadSigTx = map[string]bool{}
		}
		w.BadSigTx[txHash(raw)] = true
	}
	return raw, err
}

// decodeTx decodes transaction bytes. Bytes that the SDK decodes into a transaction without a body
// or auth info (zero bytes do) are reported as undecodable: the SDK's accessors panic on them.
func (w *World) decodeTx(raw []byte) (tx sdk.Tx, err error) {
	if len(raw) == 0 {
		return nil, fmt.Errorf("empty transaction bytes")
	}
	tx, err = w.txConfig().TxDecoder()(raw)
	if err != nil {
		return nil, err
	}
	defer func() {
		if r := recover(); r != nil {
			tx, err = nil, fmt.Errorf("malformed transaction: %v", r)
		}
	}()
	_ = tx.GetMsgs()
	if sv, ok := tx.(xauthsigning.SigVerifiableTx); ok {
		sv.GetSigners()
	}
	if w.BadSigTx[txHash(raw)] {
		if w.decodedBad == nil || len(w.decodedBad) > 4096 {
			w.decodedBad = map[sdk.Tx]bool{}
		}
		w.decodedBad[tx] = true
	}
	return tx, nil
}

// account reads (account number, sequence) from a node's committed state.
func (n *Node) account(addr sdk.AccAddress) (num, seq uint64, ok bool) {
	acc := n.App.AccountKeeper.GetAccount(n.ctx(), addr)
	if acc == nil {
		return 0, 0, false
	}
	return acc.GetAccountNumber(), acc.GetSequence(), true
}

var _ = authtypes.ModuleName

func txSummary(w *World, raw []byte) string {
	tx, err := w.decodeTx(raw)
	if err != nil {
		return fmt.Sprintf("undecodable(%d bytes)", len(raw))
	}
	s := ""
	for _, m := range tx.GetMsgs() {
		s += sdk.MsgTypeURL(m) + " "
	}
	return s
}

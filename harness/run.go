package main

import (
	"crypto/sha256"
	"encoding/hex"
	"encoding/json"
	"fmt"
	"os"
	"runtime/debug"
	"sort"
	"strings"
	"time"
)

// RunResult is what one simulated run reports to the orchestrator.
type RunResult struct {
	Seed        uint64         `json:"seed"`
	Profile     string         `json:"profile"`
	Heights     int            `json:"heights"`
	Rounds      int            `json:"rounds"`
	Steps       int            `json:"steps"`
	SimSec      float64        `json:"sim_sec"`
	WallMs      int64          `json:"wall_ms"`
	Violations  []*Violation   `json:"violations,omitempty"`
	Faults      map[string]int `json:"faults,omitempty"`
	Probes      map[string]int `json:"probes,omitempty"`
	StepKinds   map[string]int `json:"step_kinds,omitempty"`
	OracleEvals map[string]int `json:"oracle_evals,omitempty"`
	Interleave  []string       `json:"interleavings,omitempty"`
	States      []string       `json:"states,omitempty"`
	Fingerprint string         `json:"fingerprint"`
	Adversarial bool           `json:"adversarial"`
	FaultFree   bool           `json:"fault_free"`
	PlanFile    string         `json:"plan_file,omitempty"`
	MinSteps    int            `json:"min_steps,omitempty"`
	Error       string         `json:"error,omitempty"`
	Sample      string         `json:"sample,omitempty"`
	Halted      string         `json:"halted,omitempty"`
	TxOK        int            `json:"tx_ok"`
	TxFail      int            `json:"tx_fail"`
	Trace       string         `json:"trace"`
	RaceOther   int            `json:"race_other,omitempty"`
	Enumerated  string         `json:"enumerated,omitempty"`
}

const maxStepsPerHeight = 12

// executePlan runs a plan: replays plan.Steps if replay is set, otherwise generates steps online
// (appending them to plan.Steps) until the configured number of heights is reached.
func executePlan(plan *Plan, replay bool, trace bool) (w *World, res *RunResult) {
	t0 := time.Now()
	res = &RunResult{Seed: plan.Seed, Profile: plan.Config.Profile, FaultFree: plan.Config.FaultFree}
	defer func() {
		if r := recover(); r != nil {
			if he, ok := r.(harnessError); ok {
				res.Error = he.Error()
			} else {
				res.Error = fmt.Sprintf("harness panic: %v\n%s", r, debug.Stack())
			}
		}
		if w != nil {
			res.collect(w)
			w.close()
		}
		res.WallMs = time.Since(t0).Milliseconds()
	}()
	w = newWorld(plan.Seed, plan.Config, trace)
	if replay {
		for _, st := range plan.Steps {
			w.apply(st)
		}
	} else {
		r := newRand(plan.Seed, "gen")
		maxSteps := plan.Config.Heights * maxStepsPerHeight
		wal := openWAL(plan)
		for i := 0; int(w.Cmt.Height) < plan.Config.Heights && i < maxSteps && w.Cmt.Halted == ""; i++ {
			st := w.nextStep(r)
			st.I = len(plan.Steps)
			plan.Steps = append(plan.Steps, st)
			wal.step(st) // written ahead: if the process dies in this step the parent still has the plan
			w.apply(st)
		}
		if plan.Config.LastPunish && w.Cmt.Halted == "" && w.Cmt.Vals != nil {
			// every member of the validator set (the anchor too) is caught double-signing in one block:
			// the module tombstones them all, candidates - if there are any - take over two blocks
			// later, and until then the commits still list only punished validators
			a := &BlockArgs{}
			for i := range w.Cmt.Vals.Validators {
				a.Evidence = append(a.Evidence, EvidenceSpec{Val: i, AgeBlocks: 1, AgeSec: 2})
			}
			w.probe("every-member-punished-at-once")
			for _, st := range []Step{mkStep("block", a, 0), mkStep("block", &BlockArgs{}, 0), mkStep("block", &BlockArgs{}, 0), mkStep("block", &BlockArgs{}, 0)} {
				st.I = len(plan.Steps)
				plan.Steps = append(plan.Steps, st)
				wal.step(st)
				w.apply(st)
				if w.Cmt.Halted != "" {
					break
				}
			}
		}
		if plan.Config.LastExit && w.Cmt.Halted == "" {
			// every validator (the anchor too) asks for everything back: a legal history of unlock
			// requests whose validator updates the consensus engine must still be able to apply
			for _, st := range []Step{mkStep("el.ops", w.genExitAllOps(), 0), mkStep("block", &BlockArgs{}, 0), mkStep("block", &BlockArgs{}, 0), mkStep("block", &BlockArgs{}, 0)} {
				st.I = len(plan.Steps)
				plan.Steps = append(plan.Steps, st)
				wal.step(st)
				w.apply(st)
				if w.Cmt.Halted != "" {
					break
				}
			}
		}
		wal.close()
		if plan.Config.FaultFree && w.Cmt.Halted == "" {
			// bounded liveness once the workload stops: plain blocks, then the queues must be empty
			// the tail is sized by the observed hand-over rate: one voted block hash per block, the other kinds at least eight
			k := 6 + len(w.M.Owed.Q["btcblock"]) + w.M.Owed.pending()/8
			for i := 0; i < k; i++ {
				st := mkStep("block", &BlockArgs{}, 0)
				st.I = len(plan.Steps)
				plan.Steps = append(plan.Steps, st)
				w.apply(st)
			}
			st := mkStep("probe.drained", map[string]int{"blocks": k}, 0)
			st.I = len(plan.Steps)
			plan.Steps = append(plan.Steps, st)
			w.apply(st)
		}
	}
	w.finalChecks(replay)
	return w, res
}

func (res *RunResult) collect(w *World) {
	s := w.Stats
	res.Heights = s.Heights
	res.Rounds = s.Rounds
	res.SimSec = s.SimTime.Seconds()
	res.Violations = w.Viol
	res.Faults = s.Faults
	res.Probes = s.Probes
	res.StepKinds = s.Steps
	res.OracleEvals = s.OracleEvals
	res.TxOK, res.TxFail = s.TxOK, s.TxFail
	res.Trace = hx(w.TraceH)
	var vk []string
	for _, v := range w.Viol {
		vk = append(vk, v.Property+"/"+v.Oracle+"/"+v.Shape)
	}
	sort.Strings(vk)
	res.Trace = hx(sha([]byte(res.Trace), []byte(strings.Join(vk, ","))))
	for k := range s.Interleavings {
		res.Interleave = append(res.Interleave, k)
	}
	sort.Strings(res.Interleave)
	for k := range s.AbstractStates {
		h := sha256.Sum256([]byte(k))
		res.States = append(res.States, hex.EncodeToString(h[:6]))
	}
	sort.Strings(res.States)
	var fp []string
	for k, v := range s.StepOutcomes {
		fp = append(fp, fmt.Sprintf("%s*%d", k, v))
	}
	for k := range s.Faults {
		fp = append(fp, "F:"+k)
	}
	sort.Strings(fp)
	h := sha256.Sum256([]byte(strings.Join(fp, "|")))
	res.Fingerprint = hex.EncodeToString(h[:8])
	res.Adversarial = len(s.Faults) > 0
	for k := range s.Steps {
		if isAdversarialStep(k) {
			res.Adversarial = true
		}
	}
	if w.Cmt != nil {
		res.Halted = w.Cmt.Halted
	}
	res.Steps = 0
	for k, v := range s.Steps {
		if !strings.HasPrefix(k, "el.") || k == "el.ops" {
			res.Steps += v
		}
	}
}

func isAdversarialStep(k string) bool {
	switch k {
	case "rel.forged", "rel.replay", "rel.baddeposit", "rel.badwithdraw", "rel.bundle", "probe.fuzztx", "probe.fuzzproposal", "probe.admission", "el.raw":
		return true
	}
	return false
}

func hasViolation(vs []*Violation, prop, oracle string) *Violation {
	for _, v := range vs {
		if v.Property == prop && (oracle == "" || v.Oracle == oracle) {
			return v
		}
	}
	return nil
}

// minimise shrinks the step list by delta debugging while the same oracle of the same property fires.
func minimise(plan *Plan, target *Violation, budget time.Duration) *Plan {
	deadline := time.Now().Add(budget)
	best := *plan
	best.Steps = append([]Step{}, plan.Steps...)
	// cut everything after the violating step first
	if target.Step+1 < len(best.Steps) {
		best.Steps = best.Steps[:target.Step+1]
	}
	try := func(steps []Step) bool {
		if time.Now().After(deadline) {
			return false
		}
		cand := best
		cand.Steps = renumber(steps)
		_, res := executePlan(&cand, true, false)
		if res.Error != "" {
			return false
		}
		return hasViolation(res.Violations, target.Property, target.Oracle) != nil
	}
	n := 2
	for len(best.Steps) >= 2 && time.Now().Before(deadline) {
		chunk := (len(best.Steps) + n - 1) / n
		reduced := false
		for i := 0; i < len(best.Steps); i += chunk {
			j := i + chunk
			if j > len(best.Steps) {
				j = len(best.Steps)
			}
			cand := append(append([]Step{}, best.Steps[:i]...), best.Steps[j:]...)
			if len(cand) == 0 {
				continue
			}
			if try(cand) {
				best.Steps = renumber(cand)
				n = maxInt(n-1, 2)
				reduced = true
				break
			}
		}
		if !reduced {
			if chunk == 1 {
				break
			}
			n = minInt(n*2, len(best.Steps))
		}
	}
	// simplify block steps: drop their fault arguments one at a time
	for i := range best.Steps {
		if best.Steps[i].K != "block" || time.Now().After(deadline) {
			continue
		}
		var a BlockArgs
		if json.Unmarshal(best.Steps[i].A, &a) != nil {
			continue
		}
		simpler := []func(*BlockArgs){
			func(b *BlockArgs) { b.Absent = nil },
			func(b *BlockArgs) { b.Evidence = nil },
			func(b *BlockArgs) { b.Rounds = nil },
			func(b *BlockArgs) { b.Crashes = nil },
			func(b *BlockArgs) { b.FinFaults = nil },
			func(b *BlockArgs) { b.SkewMs = nil; b.ELRestart = nil; b.Reexec = 0 },
		}
		for _, f := range simpler {
			c := a
			f(&c)
			cj, _ := json.Marshal(&c)
			if string(cj) == string(best.Steps[i].A) {
				continue
			}
			cand := append([]Step{}, best.Steps...)
			cand[i].A = cj
			if try(cand) {
				best.Steps = cand
				a = c
			}
		}
	}
	best.Steps = renumber(best.Steps)
	return &best
}

func renumber(steps []Step) []Step {
	out := append([]Step{}, steps...)
	for i := range out {
		out[i].I = i
	}
	return out
}

func maxInt(a, b int) int {
	if a > b {
		return a
	}
	return b
}

func writePlan(path string, p *Plan) error {
	b, err := json.MarshalIndent(p, "", " ")
	if err != nil {
		return err
	}
	return os.WriteFile(path, b, 0o644)
}

func readPlan(path string) (*Plan, error) {
	b, err := os.ReadFile(path)
	if err != nil {
		return nil, err
	}
	p := new(Plan)
	if err := json.Unmarshal(b, p); err != nil {
		return nil, err
	}
	return p, nil
}

// finalChecks runs the end-of-run oracles (history checks, bounded liveness in fault-free runs).
func (w *World) finalChecks(replay bool) {
	if w.Cmt == nil {
		return
	}
	w.finalRelayerChecks()
	w.checkForeignEngineCalls("the last step")
}

// write-ahead log of the plan being generated (C19: a crash of the worker process is what a crash
// of the node looks like; the parent reports the prefix that killed it)
type walFile struct{ f *os.File }

var walPath string

func openWAL(p *Plan) *walFile {
	if walPath == "" {
		return &walFile{}
	}
	f, err := os.Create(walPath)
	if err != nil {
		return &walFile{}
	}
	hdr := *p
	hdr.Steps = nil
	b, _ := json.Marshal(&hdr)
	f.Write(append(b, '\n'))
	return &walFile{f}
}

func (w *walFile) step(st Step) {
	if w.f != nil {
		b, _ := json.Marshal(&st)
		w.f.Write(append(b, '\n'))
	}
}

func (w *walFile) close() {
	if w.f != nil {
		w.f.Close()
		os.Remove(w.f.Name())
	}
}

// planFromWAL rebuilds the plan a dead worker was executing.
func planFromWAL(path string) (*Plan, error) {
	b, err := os.ReadFile(path)
	if err != nil {
		return nil, err
	}
	lines := strings.Split(strings.TrimSpace(string(b)), "\n")
	p := new(Plan)
	if err := json.Unmarshal([]byte(lines[0]), p); err != nil {
		return nil, err
	}
	for _, ln := range lines[1:] {
		var st Step
		if json.Unmarshal([]byte(ln), &st) == nil {
			p.Steps = append(p.Steps, st)
		}
	}
	return p, nil
}

package main

// Relayer actors: group members with a secp256k1 tx key and a BLS vote key. The current proposer
// assembles proposals, collects signatures from the members a step lets answer, aggregates with
// the real goatcrypto.AggregateSignatures and signs a cosmos transaction. Every voted submission
// carries ground truth produced by the actor (who really signed, over which context).

import (
	"encoding/json"
	"fmt"
	"sort"

	abci "github.com/cometbft/cometbft/abci/types"
	sdk "github.com/cosmos/cosmos-sdk/types"
	"github.com/cosmos/gogoproto/proto"
	goatcrypto "github.com/goatnetwork/goat/pkg/crypto"
	bitcointypes "github.com/goatnetwork/goat/x/bitcoin/types"
	relayertypes "github.com/goatnetwork/goat/x/relayer/types"
)

// VoteTruth is what really happened when a vote was produced.
type VoteTruth struct {
	Method   string
	Signers  []string // bech32 addresses of the members whose keys signed (distinct unless DupSigner)
	Bits     []int    // bit positions set in the bitmap
	Chain    string   // context the signers signed for
	Epoch    uint64
	Seq      uint64
	Proposer string
	Payload  string // digest of the payload the signers signed for
	Honest   bool   // produced by the honest procedure for the state it was built on
	Variant  string
}

type SentTx struct {
	Raw    []byte
	Msgs   []sdk.Msg
	Truths []*VoteTruth // per message, for multi-message transactions
	Truth  *VoteTruth
	Height int64
	Label  string
	Honest bool
}

type RelState struct {
	ByAddr        map[string]*RelMember
	Truth         map[string]*VoteTruth   // by tx hash
	TruthMulti    map[string][]*VoteTruth // by tx hash, per message (multi-message transactions)
	Labels        map[string]*SentTx
	Sent          []*SentTx
	NextMember    int
	AcceptedVotes map[string]int64 // vote signature hex -> height accepted (C02)
	RegTruth      map[string]*regTruth
	EverProposer  map[string]bool // addresses that have been the proposer (they own an account: they signed transactions)
}

func (w *World) rel() *RelState {
	if w.R == nil {
		w.R = &RelState{ByAddr: map[string]*RelMember{}, Truth: map[string]*VoteTruth{}, TruthMulti: map[string][]*VoteTruth{}, Labels: map[string]*SentTx{}, AcceptedVotes: map[string]int64{}, RegTruth: map[string]*regTruth{}, EverProposer: map[string]bool{}}
		for _, m := range w.Members {
			w.R.ByAddr[m.Addr()] = m
		}
		w.R.NextMember = len(w.Members)
	}
	return w.R
}

// member returns the identity with index idx, deriving it from the run seed if needed (replay).
func (w *World) member(idx int) *RelMember {
	r := w.rel()
	for len(w.Members) <= idx {
		i := len(w.Members)
		m := &RelMember{Idx: i, Tx: newSecpKey(w.Seed, "reltx", i), Vote: newBLSKey(w.Seed, "relvote", i)}
		w.Members = append(w.Members, m)
		r.ByAddr[m.Addr()] = m
	}
	if r.NextMember <= idx {
		r.NextMember = idx + 1
	}
	return w.Members[idx]
}

func txHash(raw []byte) string { return hx(sha(raw)) }

// payloadDigest identifies "the action and payload" of a voted message independently of the
// application's sign-doc layout: the message with its vote and proposer blanked.
func payloadDigest(msg sdk.Msg) string {
	c := protoCloneMsg(msg)
	switch m := c.(type) {
	case *bitcointypes.MsgNewBlockHashes:
		m.Vote, m.Proposer = nil, ""
	case *bitcointypes.MsgNewPubkey:
		m.Vote, m.Proposer = nil, ""
	case *bitcointypes.MsgProcessWithdrawal:
		m.Vote, m.Proposer = nil, ""
	case *bitcointypes.MsgReplaceWithdrawal:
		m.Vote, m.Proposer = nil, ""
	case *bitcointypes.MsgNewConsolidation:
		m.Vote, m.Proposer = nil, ""
	}
	bz, _ := proto.Marshal(c)
	return fmt.Sprintf("%T:%x", msg, sha(bz)[:12])
}

func votedMsg(msg sdk.Msg) (relayertypes.IVoteMsg, bool) {
	switch m := msg.(type) {
	case *bitcointypes.MsgNewBlockHashes, *bitcointypes.MsgNewPubkey, *bitcointypes.MsgProcessWithdrawal, *bitcointypes.MsgReplaceWithdrawal, *bitcointypes.MsgNewConsolidation:
		return m.(relayertypes.IVoteMsg), true
	}
	return nil, false
}

func setVote(msg sdk.Msg, v *relayertypes.Votes) {
	switch m := msg.(type) {
	case *bitcointypes.MsgNewBlockHashes:
		m.Vote = v
	case *bitcointypes.MsgNewPubkey:
		m.Vote = v
	case *bitcointypes.MsgProcessWithdrawal:
		m.Vote = v
	case *bitcointypes.MsgReplaceWithdrawal:
		m.Vote = v
	case *bitcointypes.MsgNewConsolidation:
		m.Vote = v
	}
}

func setProposer(msg sdk.Msg, p string) {
	switch m := msg.(type) {
	case *bitcointypes.MsgNewBlockHashes:
		m.Proposer = p
	case *bitcointypes.MsgNewPubkey:
		m.Proposer = p
	case *bitcointypes.MsgProcessWithdrawal:
		m.Proposer = p
	case *bitcointypes.MsgReplaceWithdrawal:
		m.Proposer = p
	case *bitcointypes.MsgNewConsolidation:
		m.Proposer = p
	case *bitcointypes.MsgNewDeposits:
		m.Proposer = p
	case *bitcointypes.MsgFinalizeWithdrawal:
		m.Proposer = p
	case *bitcointypes.MsgApproveCancellation:
		m.Proposer = p
	case *relayertypes.MsgNewVoterRequest:
		m.Proposer = p
	case *relayertypes.MsgAcceptProposerRequest:
		m.Proposer = p
	}
}

// VoteOpt steers how a vote is produced; the zero value is the honest procedure.
type VoteOpt struct {
	Variant        string `json:"variant,omitempty"`
	Signers        []int  `json:"signers,omitempty"`    // member indices that sign (nil: proposer + as many voters as the quorum needs)
	Bits           []int  `json:"bits,omitempty"`       // bit positions (nil: the positions of the signing voters)
	BitmapLen      int    `json:"bitmap_len,omitempty"` // bytes (0: minimal multiple of 8)
	Chain          string `json:"chain,omitempty"`      // context overrides for what the signers sign
	EpochDelta     int64  `json:"epoch_delta,omitempty"`
	SeqDelta       int64  `json:"seq_delta,omitempty"`
	Method         string `json:"method,omitempty"`
	AltPayload     bool   `json:"alt_payload,omitempty"` // signers sign another payload of the same action
	ExtraVoters    int    `json:"extra_voters,omitempty"`
	DropSigner     int    `json:"drop_signer,omitempty"` // 1-based index into the signer list to leave out of the aggregate
	DupSigner      bool   `json:"dup_signer,omitempty"`
	Outsider       bool   `json:"outsider,omitempty"`       // one signature comes from a key that is not a current member
	VoteSeqDelta   int64  `json:"vote_seq_delta,omitempty"` // what the Votes struct claims (separately from what was signed)
	VoteEpochDelta int64  `json:"vote_epoch_delta,omitempty"`
}

type chainView struct {
	Rel      *relayertypes.Relayer
	Seq      uint64
	Proposer *RelMember
	Voters   []*RelMember // in list order; nil entry if the identity is unknown to the simulator
	N        int
}

func (w *World) chainView() *chainView {
	cur := w.M.Cur
	if cur == nil {
		return nil
	}
	r := w.rel()
	v := &chainView{Rel: cur.Relayer.Relayer, Seq: cur.Relayer.Sequence + uint64(w.PendingVoted)}
	v.Proposer = r.ByAddr[v.Rel.Proposer]
	for _, a := range v.Rel.Voters {
		v.Voters = append(v.Voters, r.ByAddr[a])
	}
	v.N = len(v.Rel.Voters)
	return v
}

func thresholdOf(n int) int { return (2*(n+1) + 2) / 3 } // ceil(2(n+1)/3) in integers

// makeVote signs msg (whose proposer field is already set) according to opt and returns the
// vote plus the ground truth.
func (w *World) makeVote(msg sdk.Msg, alt sdk.Msg, opt VoteOpt, r *Rand) (*relayertypes.Votes, *VoteTruth) {
	cv := w.chainView()
	vm, _ := votedMsg(msg)
	need := thresholdOf(cv.N) - 1 // voters besides the proposer
	if need < 0 {
		need = 0
	}
	// who signs
	var signerMembers []*RelMember
	var bits []int
	if opt.Signers == nil {
		signerMembers = append(signerMembers, cv.Proposer)
		perm := r.Perm(cv.N)
		take := need + opt.ExtraVoters
		for _, i := range perm {
			if take <= 0 {
				break
			}
			if cv.Voters[i] != nil {
				signerMembers = append(signerMembers, cv.Voters[i])
				bits = append(bits, i)
				take--
			}
		}
	} else {
		for _, idx := range opt.Signers {
			m := w.member(idx)
			signerMembers = append(signerMembers, m)
			for i, v := range cv.Voters {
				if v == m {
					bits = append(bits, i)
				}
			}
		}
	}
	if opt.Bits != nil {
		bits = opt.Bits
	}
	sort.Ints(bits)
	// what they sign
	chain := chainID
	if opt.Chain != "" {
		chain = opt.Chain
	}
	epoch := uint64(int64(cv.Rel.Epoch) + opt.EpochDelta)
	seq := uint64(int64(cv.Seq) + opt.SeqDelta)
	method := vm.MethodName()
	if opt.Method != "" {
		method = opt.Method
	}
	signedMsg := vm
	signedPayload := payloadDigest(msg)
	if opt.AltPayload && alt != nil {
		signedMsg, _ = votedMsg(alt)
		signedPayload = payloadDigest(alt)
	}
	doc := relayertypes.VoteSignDoc(method, chain, vm.GetProposer(), seq, epoch, signedMsg.VoteSigDoc())
	var sigs [][]byte
	truth := &VoteTruth{Method: method, Chain: chain, Epoch: epoch, Seq: seq, Proposer: vm.GetProposer(), Payload: signedPayload, Bits: bits, Variant: opt.Variant}
	for i, m := range signerMembers {
		if opt.DropSigner == i+1 {
			continue
		}
		if m == nil {
			continue
		}
		key := m.Vote
		if opt.Outsider && i == len(signerMembers)-1 {
			key = newBLSKey(w.Seed, "outsider", r.Intn(1000))
			truth.Signers = append(truth.Signers, "outsider")
		} else {
			truth.Signers = append(truth.Signers, m.Addr())
		}
		sigs = append(sigs, key.Sign(doc))
		if opt.DupSigner && i == 0 {
			sigs = append(sigs, key.Sign(doc))
			truth.Signers = append(truth.Signers, m.Addr())
		}
	}
	var agg []byte
	if len(sigs) > 0 {
		var err error
		agg, err = goatcrypto.AggregateSignatures(sigs)
		if err != nil {
			agg = make([]byte, goatcrypto.SignatureLength)
		}
	} else {
		agg = make([]byte, goatcrypto.SignatureLength)
	}
	// bitmap bytes: bit i lives in byte i/8, the layout of a little-endian []uint64
	maxBit := -1
	for _, b := range bits {
		if b > maxBit {
			maxBit = b
		}
	}
	blen := 0
	if maxBit >= 0 {
		blen = (maxBit/64 + 1) * 8
	}
	if opt.BitmapLen > 0 {
		blen = opt.BitmapLen
	}
	bm := make([]byte, blen)
	for _, b := range bits {
		if b/8 < len(bm) {
			bm[b/8] |= 1 << (uint(b) % 8)
		}
	}
	votes := &relayertypes.Votes{Sequence: uint64(int64(cv.Seq) + opt.SeqDelta + opt.VoteSeqDelta), Epoch: uint64(int64(cv.Rel.Epoch) + opt.EpochDelta + opt.VoteEpochDelta), Voters: bm, Signature: agg}
	return votes, truth
}

// proposerTx wraps msgs into a transaction signed by member signer (normally the current proposer).
func (w *World) proposerTx(signer *RelMember, msgs []sdk.Msg, opt TxOpts) ([]byte, error) {
	n := w.refNode()
	if n == nil {
		return nil, fmt.Errorf("no live node")
	}
	opt.Msgs = msgs
	opt.Signer = signer.Tx
	acc := n.App.AccountKeeper.GetAccount(n.App.NewContext(true), signer.Tx.AccAddress())
	if acc != nil {
		opt.AccNum = acc.GetAccountNumber()
		if opt.Seq == 0 {
			opt.Seq = acc.GetSequence()
		}
	}
	return w.buildTx(opt)
}

// submitMulti: a multi-message transaction with one ground truth per message.
func (w *World) submitMulti(raw []byte, msgs []sdk.Msg, truths []*VoteTruth, label string) string {
	w.pendingTruths = truths
	defer func() { w.pendingTruths = nil }()
	return w.submit(raw, msgs, nil, label, false)
}

// submit gossips a transaction to the live nodes (CheckTx) and records it.
func (w *World) submit(raw []byte, msgs []sdk.Msg, truth *VoteTruth, label string, honest bool) string {
	r := w.rel()
	st := &SentTx{Raw: raw, Msgs: msgs, Truth: truth, Truths: w.pendingTruths, Height: w.Cmt.Height, Label: label, Honest: honest}
	if st.Truths != nil {
		r.TruthMulti[txHash(raw)] = st.Truths
	}
	r.Sent = append(r.Sent, st)
	if len(r.Sent) > 400 {
		r.Sent = r.Sent[len(r.Sent)-400:]
	}
	h := txHash(raw)
	if truth != nil {
		r.Truth[h] = truth
	}
	r.Labels[h] = st
	outcome := "rejected"
	for _, n := range w.aliveNodes() {
		if n.Height != w.Cmt.Height {
			continue
		}
		var resp *abci.ResponseCheckTx
		var err error
		out := n.run("checktx", func() { resp, err = n.App.CheckTx(&abci.RequestCheckTx{Tx: raw, Type: abci.CheckTxType_New}) })
		if out.Panic != nil {
			w.violate("C19", "checktx-panic", "checktx", "CheckTx panicked on node %d (%s): %v\n%s", n.ID, label, out.Panic, out.Stack)
			continue
		}
		if err == nil && resp != nil && resp.Code == 0 {
			n.CmtPool = append(n.CmtPool, raw)
			outcome = "admitted"
		} else if resp != nil {
			w.note("checktx", fmt.Sprintf("%s rejected on node %d: %s", label, n.ID, resp.Log))
		}
	}
	if outcome == "admitted" {
		for _, m := range msgs {
			if _, ok := votedMsg(m); ok && honest {
				w.PendingVoted++
			}
		}
	}
	w.checkAdmission(st, outcome)
	return outcome
}

func jsonArgs(st Step, v any) bool { return json.Unmarshal(st.A, v) == nil }

package main

import (
	"encoding/json"
	"fmt"
	"os"
	"os/exec"
	"path/filepath"
	"sort"
	"strings"
	"sync"
	"time"
)

type Coverage struct {
	Evaluations        int               `json:"evaluations"`
	DistinctNontrivial int               `json:"distinct_nontrivial"`
	Rule               string            `json:"rule"`
	Samples            []string          `json:"samples"`
	Exhaustive         bool              `json:"exhaustive"`
	Heights            int               `json:"heights"`
	Rounds             int               `json:"rounds"`
	SimSeconds         float64           `json:"simulated_seconds"`
	RunsPerHour        float64           `json:"runs_per_hour"`
	SeedsPerHour       float64           `json:"seeds_per_hour"`
	FaultFreeRuns      int               `json:"fault_free_runs"`
	OracleEvaluations  int               `json:"oracle_evaluations"`
	FaultsFired        map[string]int    `json:"faults_fired"`
	Probes             map[string]int    `json:"probes_hit"`
	ProbesAtZero       []string          `json:"probes_at_zero,omitempty"`
	StepKinds          map[string]int    `json:"step_kinds"`
	DistinctStates     int               `json:"distinct_abstract_states"`
	DistinctInterleave int               `json:"distinct_interleavings"`
	Profiles           map[string]int    `json:"runs_per_profile"`
	RealVsStub         map[string]string `json:"real_vs_stub"`
	Enumerated         map[string]int    `json:"enumerated,omitempty"`
	Race               map[string]int    `json:"race_detector,omitempty"`
	TxOK               int               `json:"relayer_txs_accepted"`
	TxFail             int               `json:"relayer_txs_rejected"`
}

type Evidence struct {
	PropertyID  string              `json:"property_id"`
	Tier        string              `json:"tier"`
	Seed        int64               `json:"seed"`
	Level       string              `json:"level"`
	Coverage    Coverage            `json:"coverage"`
	Assumptions []string            `json:"assumptions"`
	WallS       float64             `json:"wall_s"`
	Violations  int                 `json:"violations"`
	Other       map[string]int      `json:"other_property_observations,omitempty"`
	OtherSeeds  map[string][]string `json:"other_property_observation_runs,omitempty"`
	Technique   string              `json:"technique"`
}

var expectedProbes = map[string][]string{
	"C06": {"system-txs-delivered", "round-abandoned-after-prepare", "crash-between-finalize-and-commit", "head-stalled"},
	"C07": {"crash-between-finalize-and-commit", "reexecuted-on-fork"},
	"C09": {"head-advanced", "head-stalled"},
	"C11": {"unlock-requested", "unlock-delivered", "downtime-jailed"},
	"C12": {"halving-boundary-crossed", "grant-exhausted", "claim-requested", "reward-delivered", "distribution-among-3+"},
	"C13": {"set-full-with-candidate-outside", "power-tie-in-set"},
	"C14": {"downtime-jailed", "evidence-fresh", "evidence-expired", "unjailed", "signing-window-rolled"},
	"C15": {"unlock-delivered", "unlock-below-threshold", "more-matured-unlocks-than-cap"},
}

var propertyAssumptions = map[string][]string{
	"*": {
		"the consensus engine is a stub (cmtstub) that drives ABCI the way CometBFT 0.38 does as far as the application can observe; the validator set is the real cmttypes.ValidatorSet",
		"the execution layer is a model (elfake) served over the real go-ethereum JSON-RPC codec; its accept/reject rules are transcribed from goat-geth v0.1.0, it does not run the EVM",
		"the disk is a MemDB behind a fault wrapper; goleveldb and fsync behaviour are not exercised",
		"seeded search: a clean batch is evidence, not proof",
	},
	"C08": {"completeness is judged only in windows where the execution layer is well-behaved and the verifier's clock is not behind the payload's second"},
	"C14": {"the signing-window reading (miss counted, offence decided, then offset advanced and counters reset at the window end) is taken from the unchanged tree"},
}

func aggregate(prop, tier string, seed uint64, results []*RunResult, wall time.Duration) *Evidence {
	ev := &Evidence{PropertyID: prop, Tier: tier, Seed: int64(seed), Level: levelOf(prop), WallS: wall.Seconds(), Other: map[string]int{},
		Technique: "deterministic simulation with fault injection (seeded search over schedules and fault sequences)"}
	c := &ev.Coverage
	c.FaultsFired, c.Probes, c.StepKinds, c.Profiles = map[string]int{}, map[string]int{}, map[string]int{}, map[string]int{}
	fps := map[string]bool{}
	states := map[string]bool{}
	ils := map[string]bool{}
	for _, r := range results {
		if r.Error != "" {
			continue
		}
		c.Evaluations++
		c.Heights += r.Heights
		c.Rounds += r.Rounds
		c.SimSeconds += r.SimSec
		c.Profiles[r.Profile]++
		c.TxOK += r.TxOK
		c.TxFail += r.TxFail
		if r.FaultFree && r.Enumerated == "" {
			c.FaultFreeRuns++
		}
		if r.Enumerated != "" {
			if c.Enumerated == nil {
				c.Enumerated = map[string]int{}
			}
			c.Enumerated["variants"]++
			parts := strings.SplitN(r.Enumerated, "/", 3)
			if len(parts) >= 2 {
				c.Enumerated["kind:"+parts[1]]++
			}
		}
		for k, v := range r.Faults {
			c.FaultsFired[k] += v
		}
		for k, v := range r.Probes {
			c.Probes[k] += v
		}
		for k, v := range r.StepKinds {
			c.StepKinds[k] += v
		}
		c.OracleEvaluations += r.OracleEvals[prop]
		if r.OracleEvals[prop] > 0 && r.Adversarial {
			fps[r.Fingerprint] = true
		}
		for _, s := range r.States {
			states[s] = true
		}
		for _, s := range r.Interleave {
			ils[s] = true
		}
		if r.Sample != "" && len(c.Samples) < 4 {
			c.Samples = append(c.Samples, fmt.Sprintf("seed=%d profile=%s heights=%d: %s", r.Seed, r.Profile, r.Heights, r.Sample))
		}
	}
	c.DistinctNontrivial = len(fps)
	c.DistinctStates = len(states)
	c.DistinctInterleave = len(ils)
	if wall > 0 {
		c.RunsPerHour = float64(c.Evaluations) / wall.Hours()
		c.SeedsPerHour = c.RunsPerHour
	}
	c.Rule = "each evaluation is one whole simulated run (1-4 replicas of the real application, fake engine per replica, simulated consensus driver, relayer/bitcoin/EL-user actors) generated online from one seed; " +
		"a run counts as non-trivial when this property's oracle was evaluated at least once and at least one fault or adversarial step actually fired; " +
		"distinct = distinct fingerprints (hash of the multiset of (step kind, outcome) pairs plus the set of fault kinds fired)"
	for _, p := range expectedProbes[prop] {
		if c.Probes[p] == 0 {
			c.ProbesAtZero = append(c.ProbesAtZero, p)
		}
	}
	sort.Strings(c.ProbesAtZero)
	c.RealVsStub = map[string]string{
		"app, x/relayer, x/bitcoin, x/locking, x/goat, pkg/crypto, pkg/ethrpc": "real (working tree after source rewrites T1-T5)",
		"cosmos-sdk baseapp/store/IAVL/auth, tx signing, SenderNonceMempool":   "real",
		"go-ethereum rpc codec, engine types, goattypes codecs, DeriveSha":     "real",
		"cometbft ValidatorSet / PB2TM":                                        "real",
		"CometBFT consensus engine, p2p, mempool reactor":                      "stub (cmtstub)",
		"goat-geth execution, contracts":                                       "stub (elfake model)",
		"Bitcoin network":                                                      "stub (btcsim) on real btcd wire/txscript/btcutil",
		"relayer service":                                                      "stub (actors) with real BLS / secp256k1 signing",
		"disk":                                                                 "stub (faultdb over MemDB)",
		"clock, timers, entropy, goroutine scheduling, map order in GOAT code": "simulated (simrt)",
	}
	ev.Assumptions = append(ev.Assumptions, propertyAssumptions["*"]...)
	ev.Assumptions = append(ev.Assumptions, propertyAssumptions[prop]...)
	if len(c.Samples) == 0 {
		c.Samples = []string{"(no run completed)"}
	}
	if c.Enumerated != nil {
		c.Enumerated["base_histories"] = enumBases(tier)
		c.Exhaustive = false
		c.Rule += "; the systematic part re-plays " + fmt.Sprint(enumBases(tier)) + " fault-free 6-height base histories once per single-fault variant (C09: every engine call kind of every phase on every node at every block x every fault kind; C06/C07: every crash point incl. torn commits 1..8, every abandoned-round kind), followed by seeded search for the rest of the budget"
	}
	return ev
}

func levelOf(prop string) string {
	if prop == "C09" {
		return "fault_enumeration"
	}
	return "exploration"
}

func (ev *Evidence) write() error {
	dir := filepath.Join(verifDir, "evidence")
	if err := os.MkdirAll(dir, 0o755); err != nil {
		return err
	}
	b, err := json.MarshalIndent(ev, "", " ")
	if err != nil {
		return err
	}
	return os.WriteFile(filepath.Join(dir, ev.PropertyID+".json"), b, 0o644)
}

// ---------------------------------------------------------------------------------------------
// race detector sweep (C08): the same scenarios on the -race build in free mode

type raceReport struct {
	Pair string // sorted pair of the innermost GOAT frames of the two accesses
	Text string
}

// parseRaceLog extracts data-race reports that involve code of GOATNetwork/goat.
func parseRaceLog(text string) (goat []raceReport, other int) {
	blocks := strings.Split(text, "WARNING: DATA RACE")
	for _, b := range blocks[1:] {
		if i := strings.Index(b, "=================="); i >= 0 {
			b = b[:i]
		}
		// the two access stacks come first; goroutine creation stacks follow
		sections := strings.Split(b, "\n\n")
		var frames []string
		harnessAccess := false
		for _, sec := range sections {
			head := strings.TrimSpace(sec)
			if !(strings.HasPrefix(head, "Write at") || strings.HasPrefix(head, "Read at") || strings.HasPrefix(head, "Previous write at") || strings.HasPrefix(head, "Previous read at") || strings.HasPrefix(head, "Previous atomic") || strings.HasPrefix(head, "Atomic")) {
				continue
			}
			// the access itself is the innermost frame that is not the Go runtime / standard library:
			// if that is the harness (package main, verifsim) the access is the harness's own, whatever
			// application frames appear further down the stack (the harness is called from inside the
			// application: fake engine, mempool wrapper)
			for _, ln := range strings.Split(sec, "\n")[1:] {
				ln = strings.TrimSpace(ln)
				if ln == "" || strings.HasPrefix(ln, "/") {
					continue // file:line of the previous frame
				}
				if strings.HasPrefix(ln, "runtime.") || strings.HasPrefix(ln, "sync.") || strings.HasPrefix(ln, "sync/atomic.") || strings.HasPrefix(ln, "reflect.") || strings.HasPrefix(ln, "bytes.") || strings.HasPrefix(ln, "strings.") || strings.HasPrefix(ln, "slices.") || strings.HasPrefix(ln, "maps.") || strings.HasPrefix(ln, "encoding/") || strings.HasPrefix(ln, "math/big.") {
					continue
				}
				if strings.HasPrefix(ln, "main.") || strings.Contains(ln, "/verifsim/") {
					harnessAccess = true
					break
				}
				if strings.HasPrefix(ln, "github.com/goatnetwork/goat/") {
					if j := strings.Index(ln, "("); j > 0 {
						ln = ln[:j]
					}
					frames = append(frames, ln)
					break
				}
				// a dependency (cosmos-sdk, go-ethereum, ...): keep looking for who called it
				for _, ln2 := range strings.Split(sec, "\n") {
					ln2 = strings.TrimSpace(ln2)
					if strings.HasPrefix(ln2, "main.") || strings.Contains(ln2, "/verifsim/") {
						break
					}
					if strings.HasPrefix(ln2, "github.com/goatnetwork/goat/") {
						if j := strings.Index(ln2, "("); j > 0 {
							ln2 = ln2[:j]
						}
						frames = append(frames, ln2)
						break
					}
				}
				break
			}
		}
		if len(frames) == 0 || harnessAccess {
			other++ // no application code involved, or one of the two accesses is the harness's own
			continue
		}
		sort.Strings(frames)
		goat = append(goat, raceReport{Pair: strings.Join(frames, " <-> "), Text: b})
	}
	return goat, other
}

func raceSweep(bin, prop, tier string, seed uint64, workers int, known knownSet, ev *Evidence) (int, error) {
	if prop != "C08" && prop != "C17" {
		return 0, nil
	}
	budget := 25 * time.Second
	nw := 8
	if tier == "thorough" {
		budget = 6 * time.Minute
		nw = workers
	}
	if prop == "C17" {
		// concurrent address queries (probe.queries) on the race build
		budget, nw = 15*time.Second, 6
		if tier == "thorough" {
			budget, nw = 3*time.Minute, workers
		}
	}
	dir, err := os.MkdirTemp(filepath.Join(verifDir, "replays"), "race-")
	if err != nil {
		return 0, err
	}
	defer os.RemoveAll(dir)
	var mu sync.Mutex
	var results []*RunResult
	var wg sync.WaitGroup
	var werr []string
	for i := 0; i < nw; i++ {
		wg.Add(1)
		go func(i int) {
			defer wg.Done()
			cmd := exec.Command(bin, "worker", "-property", prop, "-tier", "quick", "-seed", fmt.Sprint(seed^0x5ace), "-index", fmt.Sprint(i), "-of", fmt.Sprint(nw), "-budget", budget.String(),
				"-replays", filepath.Join(verifDir, "replays"), "-race-log", filepath.Join(dir, fmt.Sprintf("w%d", i)))
			cmd.Env = append(os.Environ(), "GOATSIM_FREE=1", "GORACE=halt_on_error=0 exitcode=0 log_path="+filepath.Join(dir, fmt.Sprintf("w%d", i)), "GOMAXPROCS=4")
			out, err := cmd.Output()
			mu.Lock()
			defer mu.Unlock()
			if err != nil {
				werr = append(werr, fmt.Sprintf("race worker %d: %v", i, err))
			}
			for _, ln := range strings.Split(string(out), "\n") {
				if strings.TrimSpace(ln) == "" {
					continue
				}
				r := new(RunResult)
				if json.Unmarshal([]byte(ln), r) == nil {
					results = append(results, r)
				}
			}
		}(i)
	}
	wg.Wait()
	if len(werr) > 0 {
		return 0, fmt.Errorf("%s", strings.Join(werr, "; "))
	}
	ev.Coverage.Race = map[string]int{"runs": 0, "heights": 0, "reports_in_goat_code": 0, "reports_elsewhere": 0}
	seen := map[string]string{}
	for _, r := range results {
		if r.Error != "" {
			return 0, fmt.Errorf("race run seed %d: %s", r.Seed, r.Error)
		}
		ev.Coverage.Race["runs"]++
		ev.Coverage.Race["heights"] += r.Heights
		ev.Coverage.Race["reports_elsewhere"] += r.RaceOther
		for _, v := range r.Violations {
			if v.Property == prop && v.Oracle == "data-race" {
				ev.Coverage.Race["reports_in_goat_code"]++
				if seen[v.Shape] == "" || r.PlanFile != "" {
					seen[v.Shape] = r.PlanFile + "\x00" + v.Detail
				}
			}
		}
	}
	n := 0
	for shape, v := range seen {
		parts := strings.SplitN(v, "\x00", 2)
		viol := &Violation{Property: prop, Oracle: "data-race", Shape: shape}
		if k := known.matches(viol); k != nil {
			fmt.Printf("KNOWN-FINDING: property=%s %s/%s: %s\n", k.Property, k.Oracle, k.Shape, k.Description)
			continue
		}
		n++
		fmt.Printf("violation: data-race/%s\n%s\n", shape, parts[1])
		fmt.Printf("VIOLATION property=%s replay=%s\n", prop, parts[0])
	}
	return n, nil
}

func cmdSelftest(args []string) int {
	return selftest(args)
}

package main

// Fault enumeration on short fixed histories (DESIGN.md §3: C09 engine faults; C06 / C07 crash
// points and abandoned rounds). A base history is generated fault-free from a seed; every variant
// re-plays it with exactly one fault inserted at one place.

import (
	"encoding/json"
	"fmt"
)

var enumEngineKinds = map[string][]string{
	"fcuBuild":   {"error", "timeout", "invalid", "invalid-noerr", "syncing", "accepted", "nopayloadid", "stall"},
	"getPayload": {"error", "timeout", "unknownpayload", "stall"},
	"newPayload": {"error", "invalid", "invalid-noerr", "syncing", "accepted", "stall"},
	"fcuHead":    {"error", "invalid", "invalid-noerr", "syncing", "accepted", "stall"},
}

func enumBaseConfig(r *Rand) Config {
	c := drawConfig("enum", "quick", r)
	c.Nodes = 2
	c.Heights = 6
	c.ExtraVals = r.Intn(2)
	c.FaultFree = true
	for k := range c.Weights {
		if isModifier(k) {
			delete(c.Weights, k)
		}
	}
	return c
}

type enumVariant struct {
	Plan  *Plan
	Label string
}

// enumVariants lists every single-fault variant of base for the property.
func enumVariants(prop string, base *Plan) []enumVariant {
	var out []enumVariant
	nodes := base.Config.Nodes
	for i, st := range base.Steps {
		if st.K != "block" {
			continue
		}
		var a BlockArgs
		if json.Unmarshal(st.A, &a) != nil {
			continue
		}
		add := func(label string, mod func(*BlockArgs)) {
			c := a
			mod(&c)
			cj, _ := json.Marshal(&c)
			p := *base
			p.Steps = append([]Step{}, base.Steps...)
			p.Steps[i].A = cj
			p.Config.FaultFree = true
			out = append(out, enumVariant{&p, fmt.Sprintf("step%d/%s", i, label)})
		}
		switch prop {
		case "C09":
			for n := 0; n < nodes; n++ {
				for _, call := range []string{"fcuBuild", "getPayload", "newPayload"} {
					for _, kind := range enumEngineKinds[call] {
						n, call, kind := n, call, kind
						add(fmt.Sprintf("round/node%d/%s/%s", n, call, kind), func(b *BlockArgs) {
							b.Rounds = []RoundSpec{{Kind: "honest", Faults: []*NodeFault{{Node: n, Call: call, Kind: kind}}}}
						})
					}
				}
				for _, call := range []string{"newPayload", "fcuHead"} {
					for _, kind := range enumEngineKinds[call] {
						n, call, kind := n, call, kind
						add(fmt.Sprintf("finalize/node%d/%s/%s", n, call, kind), func(b *BlockArgs) {
							b.FinFaults = []*NodeFault{{Node: n, Call: call, Kind: kind}}
						})
					}
				}
			}
		case "C06", "C07":
			for n := 0; n < nodes; n++ {
				for _, point := range []string{"pre-finalize", "post-finalize", "post-commit"} {
					n, point := n, point
					add(fmt.Sprintf("crash/node%d/%s", n, point), func(b *BlockArgs) {
						b.Crashes = []CrashSpec{{Node: n, Point: point, Down: 1}}
					})
				}
				for tear := 1; tear <= 8; tear++ {
					n, tear := n, tear
					add(fmt.Sprintf("crash/node%d/in-commit/%d", n, tear), func(b *BlockArgs) {
						b.Crashes = []CrashSpec{{Node: n, Point: "in-commit", Tear: tear, Down: 1}}
					})
				}
				if prop == "C07" {
					n := n
					add(fmt.Sprintf("reexec/node%d", n), func(b *BlockArgs) { b.Reexec = n + 1 })
				}
			}
			for _, kind := range []string{"drop", "crash-proposer", "proposer-down"} {
				kind := kind
				add("round/"+kind, func(b *BlockArgs) { b.Rounds = []RoundSpec{{Kind: kind}} })
			}
		}
	}
	return out
}

func enumBases(tier string) int {
	if tier == "thorough" {
		return 16
	}
	return 3
}

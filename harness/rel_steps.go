package main

import (
	"bytes"
	"fmt"
	"math/big"
	"sort"
	"strings"

	"github.com/btcsuite/btcd/txscript"
	"github.com/btcsuite/btcd/wire"
	sdk "github.com/cosmos/cosmos-sdk/types"
	"github.com/ethereum/go-ethereum/common"
	ethcrypto "github.com/ethereum/go-ethereum/crypto"
	bitcointypes "github.com/goatnetwork/goat/x/bitcoin/types"
	relayertypes "github.com/goatnetwork/goat/x/relayer/types"
)

// ---------------------------------------------------------------------------------------------
// facts the simulator knows about Bitcoin-side activity

type DepositFact struct {
	ID        int
	Tx        *BtcTx
	Vout      uint32
	EVM       common.Address
	Value     uint64
	Version   uint32
	Key       *relayertypes.PublicKey
	KeyIdx    int
	KeySch    bool   // own-key deposits: the key is used as a Schnorr key
	Height    uint64 // 0 while unmined
	Index     int
	Submitted bool
	Coinbase  bool
	HandedBy  int // node that handed out the address
}

type PayoutFact struct {
	IDs     []uint64
	Txs     []*BtcTx // original + RBF candidates
	Fees    []uint64
	Pid     uint64
	HavePid bool
	Mined   int // index into Txs of the candidate that was mined, -1 if none
	Height  uint64
	Index   int
	Done    bool
}

type hashesArgs struct {
	Count int     `json:"count"`
	Vote  VoteOpt `json:"vote"`
	Start int64   `json:"start_delta,omitempty"` // adversarial: offset of the start height
	Fake  bool    `json:"fake,omitempty"`        // adversarial: hashes that are not the real chain's
	Empty bool    `json:"empty,omitempty"`       // a vote over an empty list of hashes (legal; consumes a sequence number only)
}

type mineArgs struct {
	N int `json:"n"`
}

type newDepositArgs struct {
	User       int    `json:"user"`
	Value      uint64 `json:"value"`
	Version    int    `json:"version"`
	Coinbase   bool   `json:"coinbase,omitempty"`
	Node       int    `json:"node"`
	KeyIdx     int    `json:"key_idx"` // -1: whatever the node hands out
	Extra      int    `json:"extra_outputs,omitempty"`
	ScriptMut  string `json:"script_mut,omitempty"`  // the user pays a near miss of the handed-out script
	KeySchnorr bool   `json:"key_schnorr,omitempty"` // with key_idx >= 0: the key is used as a Schnorr key
	Repeat     int    `json:"repeat,omitempty"`      // that many further deposits of other users in the same step (burst)
}

type proveArgs struct {
	IDs     []int  `json:"ids"`
	Variant string `json:"variant,omitempty"`
	Arg     int    `json:"arg,omitempty"`
}

func (w *World) view() *Snap { return w.M.Cur }

func (w *World) honestProposer() *RelMember {
	cv := w.chainView()
	if cv == nil {
		return nil
	}
	return cv.Proposer
}

// sendMsgs wraps and submits messages from the current proposer (or another signer).
func (w *World) sendMsgs(msgs []sdk.Msg, truth *VoteTruth, label string, honest bool, signer *RelMember, opt TxOpts) string {
	if w.Bundle != nil && signer == nil && opt.plain() {
		// collected into one multi-message transaction (rel.bundle)
		b := w.Bundle
		for _, m := range msgs {
			var t *VoteTruth
			if truth != nil {
				c := *truth
				c.Honest = false // its fate depends on its neighbours in the transaction
				t = &c
			}
			b.Truths = append(b.Truths, t)
			if _, ok := votedMsg(m); ok && honest {
				w.PendingVoted++ // the next voted message of the bundle is signed for the next sequence
			}
		}
		b.Msgs = append(b.Msgs, msgs...)
		b.Labels = append(b.Labels, label)
		return "bundled"
	}
	if signer == nil {
		signer = w.honestProposer()
	}
	if signer == nil {
		return "skip:no-proposer-identity"
	}
	raw, err := w.proposerTx(signer, msgs, opt)
	if err != nil {
		return "skip:build-error"
	}
	return w.submit(raw, msgs, truth, label, honest)
}

// txBundle collects the messages of the sub-steps of a rel.bundle step.
type txBundle struct {
	Msgs   []sdk.Msg
	Truths []*VoteTruth
	Labels []string
}

// bundleArgs: several relayer steps whose messages travel in ONE transaction: either all of them
// take effect or none does (nothing of an earlier message may survive the failure of a later one,
// in the stores or anywhere else). simulate_on >= 0: that replica is first asked to simulate the
// transaction (what the node's Simulate service does), which must leave no trace either.
type bundleArgs struct {
	Steps      []Step `json:"steps"`
	SimulateOn int    `json:"simulate_on"`
}

func (w *World) stepBundle(a bundleArgs, r *Rand) string {
	if w.Bundle != nil {
		return "skip:nested"
	}
	signer := w.honestProposer()
	if signer == nil {
		return "skip:no-proposer-identity"
	}
	w.Bundle = &txBundle{}
	for _, sub := range a.Steps {
		switch sub.K {
		case "rel.hashes", "rel.deposit", "rel.baddeposit", "rel.pubkey", "rel.consolidation", "rel.group", "rel.withdraw", "rel.badwithdraw":
			w.applyRelayerStep(sub)
		}
	}
	b := w.Bundle
	w.Bundle = nil
	if len(b.Msgs) == 0 {
		return "skip:empty-bundle"
	}
	raw, err := w.proposerTx(signer, b.Msgs, TxOpts{GasLimit: 50_000_000})
	if err != nil {
		return "skip:build-error"
	}
	if len(b.Msgs) > 1 {
		w.probe("multi-message-transaction")
	}
	if a.SimulateOn >= 0 && len(w.Nodes) > 0 {
		n := w.Nodes[a.SimulateOn%len(w.Nodes)]
		if n.Alive && n.Height == w.Cmt.Height && n.Height > 0 {
			out := n.run("simulate", func() { n.App.Simulate(raw) })
			if out.Panic != nil {
				w.violate("C19", "simulate-panic", "simulate", "Simulate panicked on node %d: %v\n%s", n.ID, out.Panic, out.Stack)
			}
			w.probe("transaction-simulated-on-one-replica")
		}
	}
	return "bundle:" + w.submitMulti(raw, b.Msgs, b.Truths, "bundle/"+strings.Join(b.Labels, "+"))
}

func (w *World) currentBtcKey() (*relayertypes.PublicKey, int) {
	cur := w.view()
	if cur == nil || cur.Bitcoin.Pubkey == nil {
		return relayerPubKey(w.BtcKeys[0], w.Cfg.KeySchnorr), 0
	}
	enc := string(relayertypes.EncodePublicKey(cur.Bitcoin.Pubkey))
	for i, k := range w.BtcKeys {
		for _, sch := range []bool{false, true} {
			if string(relayertypes.EncodePublicKey(relayerPubKey(k, sch))) == enc {
				return cur.Bitcoin.Pubkey, i
			}
		}
	}
	return cur.Bitcoin.Pubkey, -1
}

func (w *World) btcKey(idx int) *SecpKey {
	for len(w.BtcKeys) <= idx {
		w.BtcKeys = append(w.BtcKeys, newSecpKey(w.Seed, "btckey", len(w.BtcKeys)))
	}
	return w.BtcKeys[idx]
}

// votedTip is the highest bitcoin height whose hash the chain has (committed) voted.
func (w *World) votedTip() uint64 {
	if cur := w.view(); cur != nil {
		return cur.Bitcoin.BlockTip
	}
	return w.Cfg.BtcStartTip
}

func (w *World) applyRelayerStep(st Step) (string, bool) {
	switch st.K {
	case "btc.mine":
		var a mineArgs
		if !jsonArgs(st, &a) {
			return "bad-args", true
		}
		return w.stepMine(a), true
	case "btc.deposit":
		var a newDepositArgs
		if !jsonArgs(st, &a) {
			return "bad-args", true
		}
		out := w.stepNewDeposit(a, newRand(st.S, "apply"))
		for i := 0; i < a.Repeat && i < 64; i++ {
			b := a
			b.User = (a.User + 1 + i) % len(w.Users)
			b.Value = a.Value + uint64(i)*1000
			w.stepNewDeposit(b, newRand(st.S, "apply", i))
		}
		return out, true
	}
	if w.view() == nil {
		switch st.K {
		case "rel.hashes", "rel.deposit", "rel.baddeposit", "rel.pubkey", "rel.consolidation", "rel.group", "rel.forged", "rel.replay", "rel.withdraw", "rel.badwithdraw", "rel.bundle", "el.bridge", "el.params":
			return "skip:no-state-yet", true
		}
		return "", false
	}
	r := newRand(st.S, "apply")
	switch st.K {
	case "rel.bundle":
		var a bundleArgs
		if !jsonArgs(st, &a) {
			return "bad-args", true
		}
		return w.stepBundle(a, r), true
	case "rel.hashes":
		var a hashesArgs
		if !jsonArgs(st, &a) {
			return "bad-args", true
		}
		return w.stepHashes(a, r, a.Vote.Variant == "" && a.Start == 0 && !a.Fake), true
	case "rel.deposit", "rel.baddeposit":
		var a proveArgs
		if !jsonArgs(st, &a) {
			return "bad-args", true
		}
		return w.stepProveDeposits(a, r), true
	case "rel.pubkey":
		var a pubkeyArgs
		if !jsonArgs(st, &a) {
			return "bad-args", true
		}
		return w.stepPubkey(a, r), true
	case "rel.consolidation":
		var a consolidationArgs
		if !jsonArgs(st, &a) {
			return "bad-args", true
		}
		return w.stepConsolidation(a, r), true
	case "rel.group":
		var a groupArgs
		if !jsonArgs(st, &a) {
			return "bad-args", true
		}
		return w.stepGroup(a, r), true
	case "rel.replay":
		var a replayArgs
		if !jsonArgs(st, &a) {
			return "bad-args", true
		}
		return w.stepReplay(a, r), true
	case "rel.withdraw", "rel.badwithdraw":
		var a withdrawArgs
		if !jsonArgs(st, &a) {
			return "bad-args", true
		}
		return w.stepWithdraw(a, r), true
	}
	return "", false
}

// ---------------------------------------------------------------------------------------------
// bitcoin block hashes

func (w *World) stepMine(a mineArgs) string {
	if a.N <= 0 {
		a.N = 1
	}
	for i := 0; i < a.N; i++ {
		blk := w.Btc.mine(w.Btc.pendingCoinbase())
		w.Btc.noteMined(blk)
	}
	return "mined"
}

func (w *World) stepHashes(a hashesArgs, r *Rand, honest bool) string {
	cv := w.chainView()
	if cv == nil || cv.Proposer == nil {
		return "skip:no-proposer-identity"
	}
	tip := w.votedTip() + uint64(w.PendingHashes)
	start := tip + 1
	if a.Count <= 0 {
		a.Count = 1
	}
	if a.Empty {
		a.Count = 0
	}
	for a.Count > 0 && w.Btc.Tip() < start+uint64(a.Count)-1 {
		w.Btc.noteMined(w.Btc.mine(w.Btc.pendingCoinbase()))
	}
	msg := &bitcointypes.MsgNewBlockHashes{Proposer: cv.Proposer.Addr(), StartBlockNumber: uint64(int64(start) + a.Start)}
	for i := 0; i < a.Count; i++ {
		h := w.Btc.Blocks[start+uint64(i)].Hash
		if a.Fake {
			h = sha(h, []byte("fake"))
		}
		msg.BlockHash = append(msg.BlockHash, h)
	}
	alt := &bitcointypes.MsgNewBlockHashes{Proposer: msg.Proposer, StartBlockNumber: msg.StartBlockNumber, BlockHash: [][]byte{sha([]byte("alt"), u64le(r.Uint64()))}}
	vote, truth := w.makeVote(msg, alt, a.Vote, r)
	truth.Honest = honest
	msg.Vote = vote
	out := w.sendMsgs([]sdk.Msg{msg}, truth, "hashes/"+a.Vote.Variant, honest, nil, TxOpts{})
	if out == "admitted" && honest {
		w.PendingHashes += a.Count
	}
	return out
}

// ---------------------------------------------------------------------------------------------
// deposits

func (b *BtcSim) pendingCoinbase() *BtcTx {
	cb := b.NextCoinbase
	b.NextCoinbase = nil
	return cb
}

func (b *BtcSim) noteMined(blk *BtcBlock) {
	for _, d := range b.Deposits {
		if d.Height == 0 {
			if i := blk.indexOf(d.Tx.Txid); i >= 0 {
				d.Height, d.Index = blk.Height, i
			}
		}
	}
	for _, p := range b.Payouts {
		if p.Mined < 0 {
			for ci, t := range p.Txs {
				if i := blk.indexOf(t.Txid); i >= 0 {
					p.Mined, p.Height, p.Index = ci, blk.Height, i
				}
			}
		}
	}
}

func (w *World) stepNewDeposit(a newDepositArgs, r *Rand) string {
	if len(w.Nodes) == 0 {
		return "skip"
	}
	n := w.Nodes[a.Node%len(w.Nodes)]
	if !n.Alive || n.Height == 0 {
		n = w.refNode()
		if n == nil || n.Height == 0 {
			return "skip:no-node"
		}
	}
	evm := w.Users[a.User%len(w.Users)]
	version := uint32(0)
	if a.Version == 1 || (a.Version < 0 && w.Cfg.DepositV1) {
		version = 1
	}
	if a.KeyIdx >= 0 {
		// the user derives the address for a relayer key of its own choosing (one that is about to be
		// registered, or never will be): creditable only once that key is registered by vote
		if a.KeySchnorr {
			version = 0
		}
		key := relayerPubKey(w.btcKey(a.KeyIdx), a.KeySchnorr)
		out0, out1, ok := refDepositScripts(version, key, []byte(w.Cfg.Magic), evm.Bytes())
		if !ok || a.Value == 0 {
			return "skip:no-script"
		}
		outs := []*wire.TxOut{{Value: int64(a.Value), PkScript: out0}}
		if out1 != nil {
			outs = append(outs, &wire.TxOut{Value: 0, PkScript: out1})
		}
		d := &DepositFact{ID: len(w.Btc.Deposits), Vout: 0, EVM: evm, Value: a.Value, Version: version, Key: key, KeyIdx: a.KeyIdx, KeySch: a.KeySchnorr, HandedBy: -1}
		d.Tx = w.Btc.spend(outs, "deposit")
		w.Btc.Pending = append(w.Btc.Pending, d.Tx)
		w.Btc.Deposits = append(w.Btc.Deposits, d)
		w.probe("deposit-to-self-derived-address")
		return "created:own-key"
	}
	req := &bitcointypes.QueryDepositAddress{Version: version, EvmAddress: evm.Hex()}
	resp := &bitcointypes.QueryDepositAddressResponse{}
	if err := n.query("/goat.bitcoin.v1.Query/DepositAddress", req, resp); err != nil {
		w.probe("deposit-address-refused")
		w.checkAddressRefusal(n, version, err)
		// version 1 does not exist for Schnorr keys: the user pays what such an address would look like
		// anyway (the key's plain taproot output plus the magic-prefixed data output) and the relayer
		// later claims it as a version-1 deposit; deposit checking must refuse it like the query did
		if pk, _ := w.currentBtcKey(); version == 1 && pk != nil && pk.GetSchnorr() != nil && !w.Cfg.FaultFree && a.Value > 0 {
			data := append([]byte{txscript.OP_RETURN, 24}, append([]byte(w.Cfg.Magic), evm.Bytes()...)...)
			outs := []*wire.TxOut{{Value: int64(a.Value), PkScript: w.systemScript(pk)}, {Value: 0, PkScript: data}}
			d := &DepositFact{ID: len(w.Btc.Deposits), Vout: 0, EVM: evm, Value: a.Value, Version: 1, Key: pk, HandedBy: n.ID}
			d.Tx = w.Btc.spend(outs, "deposit")
			w.Btc.Pending = append(w.Btc.Pending, d.Tx)
			w.Btc.Deposits = append(w.Btc.Deposits, d)
			w.probe("v1-deposit-paid-to-schnorr-key")
			return "address-refused:paid-anyway"
		}
		return "address-refused"
	}
	if n.Height < w.Cmt.Height {
		w.probe("address-from-lagging-replica")
	}
	script, ok := w.Btc.payScript(resp.Address)
	if !ok {
		w.violate("C17", "handed-out-address-undecodable", "undecodable", "node %d handed out deposit address %q which is not a standard address of network %s", n.ID, resp.Address, w.Cfg.Network)
		return "bad-address"
	}
	if resp.NetworkName != w.Cfg.Network {
		w.violate("C17", "handed-out-wrong-network", "network", "node %d handed out an address for network %q, configured %q", n.ID, resp.NetworkName, w.Cfg.Network)
	}
	// the address (and data-output script) handed out is the one of the key named in the answer and
	// of the EVM address asked for (a node that answers from memory after a key rotation fails here)
	if ref0, ref1, rok := refDepositScripts(version, resp.PublicKey, []byte(w.Cfg.Magic), evm.Bytes()); !rok || !bytes.Equal(script, ref0) || (version == 1 && !bytes.Equal(resp.OpReturnScript, ref1)) {
		w.Stats.OracleEvals["C17"]++
		w.violate("C17", "handed-out-address-not-for-requested-target", "query-answer", "node %d answered the deposit-address query for %x (version %d) with address %s / data output %x, which is not the address of the key it names and that target (expected %x / %x)", n.ID, evm[:6], version, resp.Address, resp.OpReturnScript, ref0, ref1)
	}
	if a.ScriptMut != "" && len(script) > 2 {
		script = append([]byte{}, script...)
		switch a.ScriptMut {
		case "witver":
			// same witness program under another witness version (OP_0, OP_1 .. OP_16)
			vers := []byte{0x00, 0x51, 0x52, 0x53, 0x58, 0x60}
			nv := vers[r.Intn(len(vers))]
			if nv == script[0] {
				nv = 0x52
			}
			script[0] = nv
		case "flip-program":
			script[2+r.Intn(len(script)-2)] ^= 1 << uint(r.Intn(8))
		case "push-len":
			script[1] ^= 1
		}
		w.Stats.Steps["btc.deposit.scriptmut/"+a.ScriptMut]++
	}
	outs := []*wire.TxOut{{Value: int64(a.Value), PkScript: script}}
	if version == 1 {
		outs = append(outs, &wire.TxOut{Value: 0, PkScript: resp.OpReturnScript})
	}
	for i := 0; i < a.Extra; i++ {
		outs = append(outs, &wire.TxOut{Value: int64(1000 + r.Intn(100000)), PkScript: append([]byte{0, 20}, r.Bytes(20)...)})
	}
	d := &DepositFact{ID: len(w.Btc.Deposits), Vout: 0, EVM: evm, Value: a.Value, Version: version, Key: resp.PublicKey, HandedBy: n.ID, Coinbase: a.Coinbase}
	if a.Coinbase && version == 0 {
		cb := w.Btc.coinbase(script, int64(a.Value))
		d.Tx = cb
		w.Btc.NextCoinbase = cb
	} else {
		d.Coinbase = false
		d.Tx = w.Btc.spend(outs, "deposit")
		w.Btc.Pending = append(w.Btc.Pending, d.Tx)
	}
	w.Btc.Deposits = append(w.Btc.Deposits, d)
	w.Stats.Steps["btc.deposit.v"+fmt.Sprint(version)]++
	return "created"
}

func (w *World) depositMsg(d *DepositFact) (*bitcointypes.Deposit, *bitcointypes.BlockHeader) {
	blk := w.Btc.Blocks[d.Height]
	dep := &bitcointypes.Deposit{Version: d.Version, BlockNumber: d.Height, TxIndex: uint32(d.Index), NoWitnessTx: d.Tx.Raw,
		OutputIndex: d.Vout, IntermediateProof: blk.proof(d.Index), EvmAddress: d.EVM.Bytes(), RelayerPubkey: d.Key}
	return dep, &bitcointypes.BlockHeader{Height: d.Height, Raw: blk.Header}
}

func (w *World) stepProveDeposits(a proveArgs, r *Rand) string {
	cv := w.chainView()
	if cv == nil || cv.Proposer == nil {
		return "skip:no-proposer-identity"
	}
	msg := &bitcointypes.MsgNewDeposits{Proposer: cv.Proposer.Addr()}
	seenH := map[uint64]bool{}
	var facts []*DepositFact
	for _, id := range a.IDs {
		if id < 0 || id >= len(w.Btc.Deposits) {
			continue
		}
		d := w.Btc.Deposits[id]
		if d.Height == 0 {
			continue
		}
		dep, hdr := w.depositMsg(d)
		msg.Deposits = append(msg.Deposits, dep)
		if !seenH[d.Height] {
			seenH[d.Height] = true
			msg.BlockHeaders = append(msg.BlockHeaders, hdr)
		}
		facts = append(facts, d)
	}
	if len(msg.Deposits) == 0 {
		return "skip:nothing-to-prove"
	}
	honest := a.Variant == ""
	if !honest {
		w.mutateDeposits(msg, facts, a, r)
	} else {
		for _, d := range facts {
			d.Submitted = true
		}
	}
	return w.sendMsgs([]sdk.Msg{msg}, nil, "deposits/"+a.Variant, honest, nil, TxOpts{})
}

var badDepositVariants = []string{"wrong-position", "alias-position", "truncated-path", "extended-path", "permuted-path", "inner-node-as-tx", "other-block-proof",
	"unvoted-header", "fake-header", "dup-in-batch", "dup-alias-in-batch", "alias-last-position", "dup-across", "wrong-evm", "unregistered-key", "other-registered-key", "wrong-version", "v1-other-magic", "vout-oob", "vout-other",
	"oversize", "undersize", "dup-header-heights", "bitflip-tx", "nil-key", "short-evm", "no-headers", "many-headers", "zero-position-claim", "same-position-other-tx", "own-key"}

// mutateDeposits applies one adversarial variant to an otherwise well-formed batch.
func (w *World) mutateDeposits(msg *bitcointypes.MsgNewDeposits, facts []*DepositFact, a proveArgs, r *Rand) {
	d0, f0 := msg.Deposits[0], facts[0]
	blk := w.Btc.Blocks[f0.Height]
	switch a.Variant {
	case "wrong-position":
		d0.TxIndex ^= 1
	case "alias-position":
		d0.TxIndex += 1 << uint(blk.depth())
	case "zero-position-claim":
		d0.TxIndex = 0
	case "truncated-path":
		if len(d0.IntermediateProof) >= 32 {
			d0.IntermediateProof = d0.IntermediateProof[:len(d0.IntermediateProof)-32]
		}
	case "extended-path":
		d0.IntermediateProof = append(d0.IntermediateProof, r.Bytes(32)...)
	case "permuted-path":
		if len(d0.IntermediateProof) >= 64 {
			p := append([]byte{}, d0.IntermediateProof...)
			copy(p[0:32], d0.IntermediateProof[32:64])
			copy(p[32:64], d0.IntermediateProof[0:32])
			d0.IntermediateProof = p
		}
	case "inner-node-as-tx":
		// present the concatenation of two level-0 nodes (64 bytes) as the "transaction"
		if len(blk.Txs) >= 2 {
			d0.NoWitnessTx = append(append([]byte{}, blk.Txs[0].Txid...), blk.Txs[1].Txid...)
			if len(d0.IntermediateProof) >= 32 {
				d0.IntermediateProof = d0.IntermediateProof[32:]
			}
			d0.TxIndex = 0
		}
	case "other-block-proof":
		if ob := w.Btc.Blocks[f0.Height-1]; ob != nil {
			d0.IntermediateProof = ob.proof(0)
			msg.BlockHeaders[0].Raw = ob.Header
		}
	case "unvoted-header":
		// a real block above the voted tip
		h := w.Btc.Tip()
		if h > w.votedTip() {
			ob := w.Btc.Blocks[h]
			d0.BlockNumber = h
			msg.BlockHeaders[0] = &bitcointypes.BlockHeader{Height: h, Raw: ob.Header}
		}
	case "fake-header":
		// a header the adversary made up whose merkle root is the txid itself (no path needed)
		// (a two-leaf tree: position 1 with the made-up sibling as the whole path). Half the time
		// the transaction itself is made up too (never mined), so that only the comparison of the
		// header with the voted hash stands between the adversary and a credit.
		txid := f0.Tx.Txid
		if r.Chance(0.5) {
			c := f0.Tx.Msg.Copy()
			c.LockTime++
			if int(d0.OutputIndex) < len(c.TxOut) {
				c.TxOut[d0.OutputIndex].Value *= 3
			}
			ft := newBtcTx(c, "made up")
			d0.NoWitnessTx, txid = ft.Raw, ft.Txid
		}
		sib := sha([]byte(fmt.Sprintf("fake-sibling-%d", a.Arg)))
		hdr := append([]byte{}, blk.Header...)
		copy(hdr[36:68], dsha(append(append([]byte{}, sib...), txid...)))
		msg.BlockHeaders[0].Raw = hdr
		d0.IntermediateProof = sib
		d0.TxIndex = 1
	case "same-position-other-tx":
		// after the genuine item: a made-up transaction (never mined) with a valid deposit output,
		// claimed at the very same block position with the very same path
		c := *d0
		mt := f0.Tx.Msg.Copy()
		mt.LockTime += uint32(1 + a.Arg)
		if int(c.OutputIndex) < len(mt.TxOut) {
			mt.TxOut[c.OutputIndex].Value = mt.TxOut[c.OutputIndex].Value*2 + 12345
		}
		c.NoWitnessTx = newBtcTx(mt, "made up").Raw
		msg.Deposits = append(msg.Deposits, &c)
	case "dup-in-batch":
		c := *d0
		msg.Deposits = append(msg.Deposits, &c)
	case "alias-last-position":
		// a single claim under the other position of a self-paired last node (the transaction is
		// really in the block; whatever the chain decides, it must credit the output at most once)
		if al := blk.aliasIndex(f0.Index); al >= 0 {
			d0.TxIndex = uint32(al)
		}
	case "dup-alias-in-batch":
		// the same output twice in one batch, the second time under another position at which the
		// same path verifies (last node of an odd-sized level); falls back to a plain repeat.
		// Either order: alias first or genuine first.
		c := *d0
		if al := blk.aliasIndex(f0.Index); al >= 0 {
			c.TxIndex = uint32(al)
			w.probe("deposit-repeated-under-alias-position")
		}
		if r.Chance(0.5) {
			msg.Deposits = append(msg.Deposits, &c)
		} else {
			msg.Deposits = append([]*bitcointypes.Deposit{&c}, msg.Deposits...)
		}
	case "dup-across":
		// resubmission of something already submitted: nothing to change
	case "wrong-evm":
		d0.EvmAddress = w.Users[(a.Arg+1)%len(w.Users)].Bytes()
		if common.BytesToAddress(d0.EvmAddress) == f0.EVM {
			d0.EvmAddress = common.BytesToAddress(sha([]byte("thief"))).Bytes()
		}
	case "unregistered-key":
		d0.RelayerPubkey = relayerPubKey(newSecpKey(w.Seed, "rogue", a.Arg), r.Chance(0.5))
	case "other-registered-key":
		if len(w.BtcKeys) > 1 {
			k := w.BtcKeys[a.Arg%len(w.BtcKeys)]
			d0.RelayerPubkey = relayerPubKey(k, r.Chance(0.5))
		}
	case "wrong-version":
		d0.Version ^= 1
		if r.Chance(0.2) {
			d0.Version = 2 + uint32(r.Intn(5))
		}
	case "v1-other-magic":
		d0.Version = 1
	case "vout-oob":
		d0.OutputIndex = uint32(len(f0.Tx.Msg.TxOut) + a.Arg%3)
	case "vout-other":
		if len(f0.Tx.Msg.TxOut) > 1 {
			d0.OutputIndex = 1
		}
	case "oversize":
		d0.NoWitnessTx = append(append([]byte{}, d0.NoWitnessTx...), make([]byte, 33*1024)...)
	case "undersize":
		d0.NoWitnessTx = d0.NoWitnessTx[:40]
	case "dup-header-heights":
		msg.BlockHeaders = append(msg.BlockHeaders, msg.BlockHeaders[0])
		c := *d0
		msg.Deposits = append(msg.Deposits, &c)
	case "bitflip-tx":
		t := append([]byte{}, d0.NoWitnessTx...)
		t[r.Intn(len(t))] ^= 1 << uint(r.Intn(8))
		d0.NoWitnessTx = t
	case "nil-key":
		d0.RelayerPubkey = nil
	case "short-evm":
		d0.EvmAddress = d0.EvmAddress[:19]
	case "no-headers":
		msg.BlockHeaders = nil
	case "many-headers":
		for i := 0; i < 3; i++ {
			msg.BlockHeaders = append(msg.BlockHeaders, &bitcointypes.BlockHeader{Height: f0.Height + uint64(i) + 1, Raw: blk.Header})
		}
	}
}

// ---------------------------------------------------------------------------------------------
// relayer bitcoin key, consolidation

type pubkeyArgs struct {
	KeyIdx  int     `json:"key_idx"`
	Schnorr bool    `json:"schnorr"`
	Vote    VoteOpt `json:"vote"`
}

func (w *World) stepPubkey(a pubkeyArgs, r *Rand) string {
	cv := w.chainView()
	if cv == nil || cv.Proposer == nil {
		return "skip:no-proposer-identity"
	}
	k := w.btcKey(a.KeyIdx)
	msg := &bitcointypes.MsgNewPubkey{Proposer: cv.Proposer.Addr(), Pubkey: relayerPubKey(k, a.Schnorr)}
	alt := &bitcointypes.MsgNewPubkey{Proposer: msg.Proposer, Pubkey: relayerPubKey(newSecpKey(w.Seed, "altkey", a.KeyIdx), a.Schnorr)}
	vote, truth := w.makeVote(msg, alt, a.Vote, r)
	honest := a.Vote.Variant == ""
	truth.Honest = honest
	msg.Vote = vote
	return w.sendMsgs([]sdk.Msg{msg}, truth, "pubkey/"+a.Vote.Variant, honest, nil, TxOpts{})
}

type consolidationArgs struct {
	Vote    VoteOpt `json:"vote"`
	Variant string  `json:"variant,omitempty"`
}

func (w *World) systemScript(pk *relayertypes.PublicKey) []byte {
	switch v := pk.GetKey().(type) {
	case *relayertypes.PublicKey_Secp256K1:
		return append([]byte{0, 20}, btcHash160(v.Secp256K1)...)
	case *relayertypes.PublicKey_Schnorr:
		return taprootKeyOnlyScript(v.Schnorr)
	}
	return nil
}

func (w *World) stepConsolidation(a consolidationArgs, r *Rand) string {
	cv := w.chainView()
	if cv == nil || cv.Proposer == nil {
		return "skip:no-proposer-identity"
	}
	pk, _ := w.currentBtcKey()
	script := w.systemScript(pk)
	outs := []*wire.TxOut{{Value: int64(100000 + r.Intn(1000000)), PkScript: script}}
	switch a.Variant {
	case "two-outputs":
		outs = append(outs, &wire.TxOut{Value: 5000, PkScript: script})
	case "other-script":
		outs[0].PkScript = append([]byte{0, 20}, r.Bytes(20)...)
	}
	tx := w.Btc.spend(outs, "consolidation")
	msg := &bitcointypes.MsgNewConsolidation{Proposer: cv.Proposer.Addr(), NoWitnessTx: tx.Raw}
	alt := &bitcointypes.MsgNewConsolidation{Proposer: msg.Proposer, NoWitnessTx: w.Btc.spend(outs, "alt").Raw}
	vote, truth := w.makeVote(msg, alt, a.Vote, r)
	honest := a.Vote.Variant == "" && a.Variant == ""
	truth.Honest = honest
	msg.Vote = vote
	if a.Variant == "nil-vote" {
		msg.Vote = nil
	}
	return w.sendMsgs([]sdk.Msg{msg}, truth, "consolidation/"+a.Vote.Variant+a.Variant, honest, nil, TxOpts{})
}

// ---------------------------------------------------------------------------------------------
// group membership

type groupArgs struct {
	Action  string `json:"action"` // add | register | remove | accept
	Member  int    `json:"member"`
	Variant string `json:"variant,omitempty"`
	Other   int    `json:"other,omitempty"`
}

func (w *World) stepGroup(a groupArgs, r *Rand) string {
	cv := w.chainView()
	cur := w.view()
	switch a.Action {
	case "add":
		m := w.member(a.Member)
		keyHash := sha(m.Vote.Pub)
		if a.Variant == "wrong-key-hash" {
			keyHash = sha(keyHash)
		}
		w.EL.addOp(&ELOp{Kind: "addvoter", Val: m.Tx.EthAddr().Hex(), Hash: hx(keyHash), Guards: a.Variant == ""})
		return "queued"
	case "remove":
		m := w.member(a.Member)
		w.EL.addOp(&ELOp{Kind: "rmvoter", Val: m.Tx.EthAddr().Hex(), Guards: a.Variant == ""})
		return "queued"
	case "accept":
		if cv == nil || cv.Proposer == nil {
			return "skip:no-proposer-identity"
		}
		signer := cv.Proposer
		epoch := cv.Rel.Epoch
		switch a.Variant {
		case "wrong-epoch":
			epoch++
		case "non-proposer":
			signer = w.member(a.Other)
		}
		msg := &relayertypes.MsgAcceptProposerRequest{Proposer: signer.Addr(), Epoch: epoch}
		return w.sendMsgs([]sdk.Msg{msg}, nil, "accept/"+a.Variant, a.Variant == "", signer, TxOpts{})
	case "register":
		if cv == nil || cv.Proposer == nil {
			return "skip:no-proposer-identity"
		}
		m := w.member(a.Member)
		v := cur.Voters[m.Addr()]
		height := uint64(0)
		keyHash := sha(m.Vote.Pub)
		if v != nil {
			height = v.Height
		}
		// the candidate proves possession of both keys over the registration sign-doc
		proofSigner := m
		chain, epoch, proposer := chainID, cv.Rel.Epoch, cv.Proposer.Addr()
		switch a.Variant {
		case "other-chain":
			chain = "other-chain-9"
		case "other-epoch":
			if epoch > 0 && r.Chance(0.6) {
				epoch = uint64(r.Intn(int(epoch))) // a proof made in an earlier epoch (epoch 0 included)
			} else {
				epoch += 1 + uint64(r.Intn(3))
			}
		case "other-height":
			height += 1 + uint64(r.Intn(5))
		case "other-proposer":
			proposer = w.member(a.Other).Addr()
		case "swapped-proofs":
			proofSigner = w.member(a.Other)
		}
		reqMsg := relayertypes.NewOnBoardingVoterRequest(height, m.Tx.AccAddress(), keyHash)
		doc := relayertypes.VoteSignDoc(reqMsg.MethodName(), chain, proposer, 0, epoch, reqMsg.SignDoc())
		sig, err := ethcrypto.Sign(doc, mustECDSA(proofSigner.Tx))
		if err != nil {
			return "skip:sign-error"
		}
		blsProof := proofSigner.Vote.Sign(doc)
		msg := &relayertypes.MsgNewVoterRequest{Proposer: cv.Proposer.Addr(), VoterBlsKey: m.Vote.Pub, VoterTxKey: m.Tx.Pub, VoterTxKeyProof: sig[:64], VoterBlsKeyProof: blsProof}
		switch a.Variant {
		case "no-bls-possession":
			msg.VoterBlsKeyProof = w.member(a.Other).Vote.Sign(doc)
		case "no-tx-possession":
			s2, _ := ethcrypto.Sign(doc, mustECDSA(w.member(a.Other).Tx))
			msg.VoterTxKeyProof = s2[:64]
		case "other-bls-key":
			o := w.member(a.Other)
			msg.VoterBlsKey = o.Vote.Pub
			msg.VoterBlsKeyProof = o.Vote.Sign(doc)
		case "short-fields":
			msg.VoterBlsKeyProof = msg.VoterBlsKeyProof[:40]
		}
		honest := a.Variant == ""
		// ground truth: the registration is genuine iff it is byte-for-byte what the honest
		// procedure produces for the current chain, epoch, proposer and registration record
		// (both signature schemes are deterministic)
		hreq := relayertypes.NewOnBoardingVoterRequest(func() uint64 {
			if v != nil {
				return v.Height
			}
			return 0
		}(), m.Tx.AccAddress(), sha(m.Vote.Pub))
		hdoc := relayertypes.VoteSignDoc(hreq.MethodName(), chainID, cv.Proposer.Addr(), 0, cv.Rel.Epoch, hreq.SignDoc())
		hsig, _ := ethcrypto.Sign(hdoc, mustECDSA(m.Tx))
		genuine := bytes.Equal(msg.VoterBlsKey, m.Vote.Pub) && bytes.Equal(msg.VoterTxKey, m.Tx.Pub) && len(hsig) >= 64 && bytes.Equal(msg.VoterTxKeyProof, hsig[:64]) && bytes.Equal(msg.VoterBlsKeyProof, m.Vote.Sign(hdoc))
		// own: both keys and both proofs are the candidate's own, made over the document described by
		// (chain, epoch, proposer, height); whether that document is the right one is judged when the
		// transaction executes, against the state it executes on
		odoc := relayertypes.VoteSignDoc(reqMsg.MethodName(), chain, proposer, 0, epoch, reqMsg.SignDoc())
		osig, _ := ethcrypto.Sign(odoc, mustECDSA(m.Tx))
		own := bytes.Equal(msg.VoterBlsKey, m.Vote.Pub) && bytes.Equal(msg.VoterTxKey, m.Tx.Pub) && len(osig) >= 64 && bytes.Equal(msg.VoterTxKeyProof, osig[:64]) && bytes.Equal(msg.VoterBlsKeyProof, m.Vote.Sign(odoc))
		w.rel().RegTruth[txKeyOf(msg)] = &regTruth{Member: m.Addr(), Genuine: genuine, Variant: a.Variant, Own: own, Chain: chain, Epoch: epoch, Proposer: proposer, Height: height, MsgProposer: msg.Proposer, KeyHash: sha(msg.VoterBlsKey)}
		return w.sendMsgs([]sdk.Msg{msg}, nil, "register/"+a.Variant, honest, nil, TxOpts{})
	}
	return "skip:unknown-action"
}

type regTruth struct {
	Member  string
	Genuine bool // genuine for the state it was made on
	Variant string
	// what the proofs were made over
	Own         bool
	Chain       string
	Epoch       uint64
	Proposer    string
	Height      uint64
	MsgProposer string
	KeyHash     []byte // hash of the BLS key presented
}

// genuineAt: the registration is what the honest procedure produces for the state it executes on.
func (t *regTruth) genuineAt(rel *relayertypes.Relayer, rec *relayertypes.Voter) bool {
	return t.Own && t.Chain == chainID && rel != nil && t.Epoch == rel.Epoch && t.Proposer == rel.Proposer && t.MsgProposer == rel.Proposer &&
		rec != nil && rec.Height == t.Height && bytes.Equal(rec.VoteKey, t.KeyHash)
}

func txKeyOf(m *relayertypes.MsgNewVoterRequest) string {
	return hx(sha(m.VoterBlsKey, m.VoterTxKey, m.VoterTxKeyProof, m.VoterBlsKeyProof, []byte(m.Proposer)))
}

// ---------------------------------------------------------------------------------------------
// replay of earlier submissions

type replayArgs struct {
	Back int    `json:"back"` // how far back in the list of sent transactions
	Mode string `json:"mode"` // verbatim | rewrap | retarget
}

func (w *World) stepReplay(a replayArgs, r *Rand) string {
	sent := w.rel().Sent
	if len(sent) == 0 {
		return "skip:nothing-sent"
	}
	st := sent[(len(sent)-1-a.Back%len(sent)+len(sent))%len(sent)]
	switch a.Mode {
	case "verbatim":
		if st.Truths != nil {
			return w.submitMulti(st.Raw, st.Msgs, st.Truths, "replay-verbatim/"+st.Label)
		}
		return w.submit(st.Raw, st.Msgs, st.Truth, "replay-verbatim/"+st.Label, false)
	case "reseq", "retarget":
		// reseq: an old vote (same payload, same signature) with the sequence / epoch fields of the
		// Votes structure edited to the current values. retarget: an old vote, untouched, in front of
		// another payload of the same action. Either passes only if signatures are not checked over
		// (action, payload, chain, epoch, sequence) every time.
		cv := w.chainView()
		if cv == nil || cv.Proposer == nil || st.Truths != nil || len(st.Msgs) != 1 || st.Truth == nil {
			return "skip:not-applicable"
		}
		c := protoCloneMsg(st.Msgs[0])
		vm, ok := votedMsg(c)
		if !ok || vm.GetVote() == nil {
			return "skip:not-voted"
		}
		setProposer(c, cv.Proposer.Addr())
		if a.Mode == "reseq" {
			vm.GetVote().Sequence = cv.Seq
			vm.GetVote().Epoch = cv.Rel.Epoch
		} else {
			switch m := c.(type) {
			case *bitcointypes.MsgNewPubkey:
				m.Pubkey = relayerPubKey(newSecpKey(w.Seed, "retarget", len(w.rel().Sent)), r.Chance(0.4))
			case *bitcointypes.MsgNewConsolidation:
				m.NoWitnessTx = w.Btc.spend([]*wire.TxOut{{Value: int64(100000 + r.Intn(100000)), PkScript: w.systemScript(w.M.Btc.CurKey)}}, "retarget").Raw
			case *bitcointypes.MsgNewBlockHashes:
				for i := range m.BlockHash {
					m.BlockHash[i] = sha(m.BlockHash[i], []byte("retarget"))
				}
				if len(m.BlockHash) == 0 {
					m.BlockHash = [][]byte{sha([]byte("retarget"))}
				}
			default:
				return "skip:no-retarget-for-kind"
			}
		}
		t := *st.Truth
		t.Honest = false
		t.Variant = "replay-" + a.Mode
		return w.sendMsgs([]sdk.Msg{c}, &t, "replay-"+a.Mode+"/"+st.Label, false, nil, TxOpts{})
	default:
		if st.Truths != nil {
			return w.submitMulti(st.Raw, st.Msgs, st.Truths, "replay-verbatim/"+st.Label)
		}
		// the old messages (old votes) under a fresh transaction signature of the current proposer
		cv := w.chainView()
		if cv == nil || cv.Proposer == nil {
			return "skip:no-proposer-identity"
		}
		var msgs []sdk.Msg
		for _, m := range st.Msgs {
			c := protoCloneMsg(m)
			setProposer(c, cv.Proposer.Addr())
			msgs = append(msgs, c)
		}
		return w.sendMsgs(msgs, st.Truth, "replay-rewrap/"+st.Label, false, nil, TxOpts{})
	}
}

// ---------------------------------------------------------------------------------------------
// generation of relayer-side steps

var forgedVariants = []string{"below-threshold", "bits-beyond-voters", "padding-bits", "extra-signer", "missing-signer", "proposer-missing", "dup-signer", "outsider-key",
	"other-chain", "other-epoch", "other-seq", "other-method", "other-payload", "odd-bitmap-len", "long-bitmap", "empty-bitmap", "claimed-seq", "claimed-epoch", "consistent-other-epoch", "consistent-other-seq", "onboarding-signers"}

func (w *World) forgedVote(variant string, r *Rand) VoteOpt {
	cv := w.chainView()
	o := VoteOpt{Variant: variant}
	n := 0
	if cv != nil {
		n = cv.N
	}
	need := thresholdOf(n) - 1
	propIdx := -1
	var voterIdx []int
	if cv != nil && cv.Proposer != nil {
		propIdx = cv.Proposer.Idx
		for _, v := range cv.Voters {
			if v != nil {
				voterIdx = append(voterIdx, v.Idx)
			}
		}
	}
	switch variant {
	case "below-threshold":
		// exactly threshold-1 genuine signers, no padding
		o.Signers = []int{}
		if propIdx >= 0 {
			o.Signers = append(o.Signers, propIdx)
		}
		for i := 0; i < need-1 && i < len(voterIdx); i++ {
			o.Signers = append(o.Signers, voterIdx[i])
		}
	case "bits-beyond-voters":
		// fewer genuine signers than needed, the count made up with bit positions >= n
		o.Signers = []int{}
		if propIdx >= 0 {
			o.Signers = append(o.Signers, propIdx)
		}
		k := 0
		if need > 1 {
			k = r.Intn(need)
		}
		var bits []int
		for i := 0; i < k && i < len(voterIdx); i++ {
			o.Signers = append(o.Signers, voterIdx[i])
		}
		if cv != nil {
			for i, v := range cv.Voters {
				for _, s := range o.Signers[minInt(1, len(o.Signers)):] {
					if v != nil && v.Idx == s {
						bits = append(bits, i)
					}
				}
			}
		}
		for len(bits) < need {
			bits = append(bits, n+r.Intn(256-n))
		}
		o.Bits = uniqueInts(bits)
	case "onboarding-signers":
		// the proposer and every member that has registered in this epoch but is not a voter yet
		// sign (genuinely), marked at the positions they would get if they were appended to the
		// list; fewer current voters sign than the quorum needs
		var ob []int
		if cur := w.view(); cur != nil {
			for _, a := range sortedKeys(cur.Voters) {
				if v := cur.Voters[a]; v.Status == relayertypes.VOTER_STATUS_ON_BOARDING {
					if m := w.rel().ByAddr[a]; m != nil {
						ob = append(ob, m.Idx)
					}
				}
			}
		}
		if len(ob) == 0 || propIdx < 0 {
			return w.forgedVote("bits-beyond-voters", r)
		}
		o.Signers = append([]int{propIdx}, ob...)
		var bits []int
		for j := range ob {
			bits = append(bits, n+j)
		}
		k := 0
		if need > 1 {
			k = r.Intn(need) // some current voters as well, but fewer than the quorum needs
		}
		for i := 0; i < k && i < len(voterIdx); i++ {
			o.Signers = append(o.Signers, voterIdx[i])
			if cv != nil {
				for pos, v := range cv.Voters {
					if v != nil && v.Idx == voterIdx[i] {
						bits = append(bits, pos)
					}
				}
			}
		}
		o.Bits = uniqueInts(bits)
		w.probe("vote-signed-by-onboarding-members")
	case "padding-bits":
		// threshold-1 genuine signers plus one marked voter who did not sign
		o.Signers = []int{}
		if propIdx >= 0 {
			o.Signers = append(o.Signers, propIdx)
		}
		var bits []int
		for i := 0; i < need-1 && i < len(voterIdx); i++ {
			o.Signers = append(o.Signers, voterIdx[i])
		}
		for i := 0; i < need && i < n; i++ {
			bits = append(bits, i)
		}
		o.Bits = bits
	case "extra-signer":
		o.ExtraVoters = 0
		o.Signers = nil
		o.DupSigner = false
		o.Outsider = false
		// all needed voters sign plus one who is not marked
		o.Bits = nil
		o.Variant = variant
		if len(voterIdx) > need && propIdx >= 0 {
			o.Signers = append([]int{propIdx}, voterIdx[:need+1]...)
			var bits []int
			if cv != nil {
				for i, v := range cv.Voters {
					for _, s := range voterIdx[:need] {
						if v != nil && v.Idx == s {
							bits = append(bits, i)
						}
					}
				}
			}
			o.Bits = bits
		}
	case "missing-signer":
		o.DropSigner = 2
	case "proposer-missing":
		o.DropSigner = 1
	case "dup-signer":
		o.DupSigner = true
	case "outsider-key":
		o.Outsider = true
	case "other-chain":
		o.Chain = "goat-other-7"
	case "other-epoch":
		o.EpochDelta = int64(1 + r.Intn(2))
		if r.Chance(0.5) && cv != nil && cv.Rel.Epoch > 0 {
			o.EpochDelta = -1
		}
		o.VoteEpochDelta = -o.EpochDelta
	case "other-seq":
		o.SeqDelta = int64(1 + r.Intn(2))
		if r.Chance(0.5) && cv != nil && cv.Seq > 0 {
			o.SeqDelta = -1
		}
		o.VoteSeqDelta = -o.SeqDelta
	case "claimed-seq":
		o.VoteSeqDelta = int64(1 + r.Intn(3))
	case "claimed-epoch":
		o.VoteEpochDelta = int64(1 + r.Intn(3))
	case "consistent-other-epoch":
		// a complete, internally consistent quorum vote, but of another epoch (signed for it and
		// claiming it), at the current sequence
		o.EpochDelta = int64(1 + r.Intn(2))
		if r.Chance(0.5) && cv != nil && cv.Rel.Epoch > 0 {
			o.EpochDelta = -1
		}
	case "consistent-other-seq":
		o.SeqDelta = int64(1 + r.Intn(2))
		if r.Chance(0.5) && cv != nil && cv.Seq > 0 {
			o.SeqDelta = -1
		}
	case "other-method":
		o.Method = pick(r, []string{"Bitcoin/NewPubkey", "Bitcoin/NewBlocks", "Bitcoin/ProcessWithdrawal", "Bitcoin/ReplaceWithdrawal", "Bitcoin/NewConsolidation", "Relayer/NewVoter"})
	case "other-payload":
		o.AltPayload = true
	case "odd-bitmap-len":
		o.BitmapLen = pick(r, []int{1, 3, 7, 9, 15, 17, 31})
	case "long-bitmap":
		o.BitmapLen = pick(r, []int{40, 64, 33})
	case "empty-bitmap":
		o.Bits = []int{}
		o.Signers = []int{}
		if propIdx >= 0 {
			o.Signers = []int{propIdx}
		}
	}
	return o
}

func uniqueInts(xs []int) []int {
	sort.Ints(xs)
	out := xs[:0]
	for i, x := range xs {
		if i == 0 || x != xs[i-1] {
			out = append(out, x)
		}
	}
	return out
}

func (w *World) genRelayerStep(kind string, r *Rand, sub uint64) (Step, bool) {
	if w.view() == nil && kind != "btc.mine" {
		switch kind {
		case "rel.hashes", "rel.deposit", "rel.baddeposit", "rel.pubkey", "rel.consolidation", "rel.group", "rel.forged", "rel.replay", "rel.withdraw", "rel.badwithdraw", "rel.bundle", "el.bridge", "el.params":
			return mkStep("block", w.genBlock(r), sub), true
		}
	}
	switch kind {
	case "rel.bundle":
		return w.genBundleStep(r, sub), true
	case "btc.mine":
		return mkStep("btc.mine", mineArgs{N: 1 + r.Intn(3) + r.Intn(2)*r.Intn(30)}, sub), true
	case "rel.hashes":
		return mkStep("rel.hashes", hashesArgs{Count: 1 + r.Intn(16), Empty: r.Chance(0.12)}, sub), true
	case "rel.pubkey":
		return mkStep("rel.pubkey", pubkeyArgs{KeyIdx: len(w.BtcKeys) - r.Intn(2), Schnorr: r.Chance(0.4)}, sub), true
	case "rel.consolidation":
		return mkStep("rel.consolidation", consolidationArgs{}, sub), true
	case "rel.forged":
		v := w.forgedVote(pick(r, forgedVariants), r)
		switch r.Intn(4) {
		case 0:
			return mkStep("rel.pubkey", pubkeyArgs{KeyIdx: len(w.BtcKeys), Schnorr: r.Chance(0.4), Vote: v}, sub), true
		case 1:
			return mkStep("rel.consolidation", consolidationArgs{Vote: v, Variant: pick(r, []string{"", "", "two-outputs", "other-script", "nil-vote"})}, sub), true
		case 2:
			if st, ok := w.genWithdrawStep(r, sub, &v); ok {
				return st, true
			}
		}
		a := hashesArgs{Count: 1 + r.Intn(4), Vote: v}
		if r.Chance(0.15) {
			a.Start = int64(pick(r, []int{-1, 1, 5}))
		}
		if r.Chance(0.1) {
			a.Fake = true
		}
		return mkStep("rel.hashes", a, sub), true
	case "rel.replay":
		return mkStep("rel.replay", replayArgs{Back: r.Intn(40), Mode: pick(r, []string{"verbatim", "rewrap", "rewrap", "reseq", "reseq", "retarget", "retarget"})}, sub), true
	case "rel.group":
		return w.genGroupStep(r, sub), true
	case "rel.deposit":
		return w.genDepositStep(r, sub, false), true
	case "rel.baddeposit":
		return w.genDepositStep(r, sub, true), true
	case "rel.withdraw":
		if st, ok := w.genWithdrawStep(r, sub, nil); ok {
			return st, true
		}
		return mkStep("block", w.genBlock(r), sub), true
	case "rel.badwithdraw":
		if st, ok := w.genBadWithdrawStep(r, sub); ok {
			return st, true
		}
		return mkStep("block", w.genBlock(r), sub), true
	case "el.bridge":
		return mkStep("el.ops", w.genBridgeOps(r), sub), true
	case "el.params":
		return mkStep("el.ops", w.genParamOps(r), sub), true
	}
	return Step{}, false
}

// genBundleStep: 1-3 relayer steps in one transaction, sometimes simulated on one replica first.
func (w *World) genBundleStep(r *Rand, sub uint64) Step {
	pool := []string{"rel.hashes", "rel.deposit", "rel.deposit", "rel.baddeposit", "rel.pubkey", "rel.pubkey", "rel.consolidation", "rel.group", "rel.withdraw", "rel.badwithdraw"}
	n := 1 + r.Intn(3)
	a := bundleArgs{SimulateOn: -1}
	if r.Chance(0.5) {
		a.SimulateOn = r.Intn(maxInt(1, w.Cfg.Nodes))
	}
	if r.Chance(0.25) {
		// a key registration followed by a deposit to that very key, then possibly something that fails
		idx := len(w.BtcKeys) - r.Intn(2)
		if idx < 0 {
			idx = 0
		}
		sch := r.Chance(0.4)
		var own []int
		for _, d := range w.Btc.Deposits {
			if d.HandedBy == -1 && d.Height != 0 && d.Height <= w.votedTip() && !d.Submitted && !w.M.Btc.Keys[string(relayertypes.EncodePublicKey(d.Key))] {
				own = append(own, d.ID)
			}
		}
		if len(own) > 0 {
			d := w.Btc.Deposits[pick(r, own)]
			idx, sch = d.KeyIdx, d.KeySch
			own = []int{d.ID}
		}
		a.Steps = append(a.Steps, mkStep("rel.pubkey", pubkeyArgs{KeyIdx: idx, Schnorr: sch}, r.Uint64()))
		if len(own) > 0 {
			ids := []int{own[0]}
			if r.Chance(0.4) {
				ids = append(ids, ids[0]) // the repeat fails the transaction after the first item verified
			}
			a.Steps = append(a.Steps, mkStep("rel.baddeposit", proveArgs{IDs: ids, Variant: "dup-across"}, r.Uint64()))
		}
		n = r.Intn(2)
	}
	for i := 0; i < n; i++ {
		st, ok := w.genRelayerStep(pick(r, pool), r, r.Uint64())
		if ok && strings.HasPrefix(st.K, "rel.") && st.K != "rel.bundle" && st.K != "rel.replay" {
			a.Steps = append(a.Steps, st)
		}
	}
	return mkStep("rel.bundle", a, sub)
}

func (w *World) genGroupStep(r *Rand, sub uint64) Step {
	cur := w.view()
	rs := w.rel()
	var pending, active, boarding []int
	for _, m := range w.Members {
		if v := cur.Voters[m.Addr()]; v != nil {
			switch v.Status {
			case relayertypes.VOTER_STATUS_PENDING:
				pending = append(pending, m.Idx)
			case relayertypes.VOTER_STATUS_ACTIVATED:
				active = append(active, m.Idx)
			case relayertypes.VOTER_STATUS_ON_BOARDING:
				boarding = append(boarding, m.Idx)
			}
		}
	}
	other := r.Intn(maxInt(1, len(w.Members)))
	k := r.Intn(100)
	switch {
	case k < 25 && len(pending) > 0:
		v := ""
		if !w.Cfg.FaultFree && r.Chance(0.45) {
			v = pick(r, []string{"other-chain", "other-epoch", "other-height", "other-proposer", "swapped-proofs", "no-bls-possession", "no-tx-possession", "other-bls-key", "short-fields"})
		}
		return mkStep("rel.group", groupArgs{Action: "register", Member: pick(r, pending), Variant: v, Other: other}, sub)
	case k < 50:
		idx := rs.NextMember
		v := ""
		if !w.Cfg.FaultFree && r.Chance(0.1) {
			v = "wrong-key-hash"
		}
		if r.Chance(0.2) && len(w.Members) > 0 {
			idx = r.Intn(len(w.Members)) // re-joining or duplicate address
		}
		if r.Chance(0.25) {
			// a former proposer that has left the group: its address owns an account (it signed
			// transactions), which sends its new registration down another path
			var ex []int
			for _, m := range w.Members {
				if rs.EverProposer[m.Addr()] && cur.Voters[m.Addr()] == nil {
					ex = append(ex, m.Idx)
				}
			}
			if len(ex) > 0 {
				idx = pick(r, ex)
				w.probe("former-proposer-re-added")
			}
		}
		return mkStep("rel.group", groupArgs{Action: "add", Member: idx, Variant: v}, sub)
	case k < 70 && len(active) > 0:
		v := ""
		if !w.Cfg.FaultFree && r.Chance(0.2) {
			v = "unguarded"
		}
		idx := pick(r, active)
		if r.Chance(0.15) {
			idx = r.Intn(len(w.Members))
		}
		// the contract also removes members that have not made it into the group yet: one that has
		// registered in this epoch (waiting for the election) or one that never registered
		if len(boarding) > 0 && r.Chance(0.35) {
			idx = pick(r, boarding)
			w.probe("removal-of-onboarding-member")
		} else if len(pending) > 0 && r.Chance(0.15) {
			idx = pick(r, pending)
		}
		return mkStep("rel.group", groupArgs{Action: "remove", Member: idx, Variant: v}, sub)
	case k < 90:
		v := ""
		if !w.Cfg.FaultFree && r.Chance(0.3) {
			v = pick(r, []string{"wrong-epoch", "non-proposer"})
		}
		return mkStep("rel.group", groupArgs{Action: "accept", Variant: v, Other: other}, sub)
	case len(pending) > 0 && !w.Cfg.FaultFree:
		// a registration that was already used
		return mkStep("rel.group", groupArgs{Action: "register", Member: pick(r, pending), Variant: "replayed", Other: other}, sub)
	}
	return mkStep("rel.group", groupArgs{Action: "accept"}, sub)
}

func (w *World) genDepositStep(r *Rand, sub uint64, bad bool) Step {
	b := w.Btc
	voted := w.votedTip()
	var provable, submitted, unmined, unvoted, ownKey []int
	for _, d := range b.Deposits {
		switch {
		case d.Height == 0:
			unmined = append(unmined, d.ID)
		case d.Height > voted:
			unvoted = append(unvoted, d.ID)
		case d.HandedBy == -1 && !d.Submitted && !w.M.Btc.Keys[string(relayertypes.EncodePublicKey(d.Key))]:
			// paid to an address the user derived for a key that is not registered (yet): an honest
			// relayer does not claim it; the adversary does ("own-key"), alone or after a failed
			// registration in the same transaction (rel.bundle)
			ownKey = append(ownKey, d.ID)
		case d.Submitted:
			submitted = append(submitted, d.ID)
		default:
			provable = append(provable, d.ID)
		}
	}
	if bad {
		pool := append(append([]int{}, provable...), submitted...)
		variant := pick(r, badDepositVariants)
		if variant == "unvoted-header" && len(unvoted) > 0 {
			pool = unvoted
		}
		if len(ownKey) > 0 && r.Chance(0.2) {
			variant = "own-key"
		}
		if variant == "own-key" {
			if len(ownKey) == 0 {
				variant = pick(r, badDepositVariants[:len(badDepositVariants)-1])
			} else {
				pool = ownKey
			}
		}
		if variant == "dup-in-batch" || variant == "dup-alias-in-batch" || variant == "alias-last-position" {
			// a repeat only tests the once-only rule when the output has not been credited yet;
			// the alias variants need a transaction that is the self-paired last node of a level
			var fresh, aliased []int
			for _, id := range provable {
				fresh = append(fresh, id)
				d := b.Deposits[id]
				if blk := b.Blocks[d.Height]; blk != nil && blk.aliasIndex(d.Index) >= 0 {
					aliased = append(aliased, id)
				}
			}
			if len(aliased) > 0 && variant != "dup-in-batch" {
				pool = aliased
			} else if len(fresh) > 0 {
				pool = fresh
			}
		}
		if len(pool) > 0 {
			ids := []int{pick(r, pool)}
			if r.Chance(0.3) && len(pool) > 1 {
				ids = append(ids, pick(r, pool))
			}
			return mkStep("rel.baddeposit", proveArgs{IDs: ids, Variant: variant, Arg: r.Intn(7)}, sub)
		}
	}
	switch {
	case len(provable) > 0 && (r.Chance(0.7) || len(provable) >= 8):
		n := 1 + r.Intn(minInt(len(provable), 16))
		return mkStep("rel.deposit", proveArgs{IDs: provable[:n]}, sub)
	case len(unvoted) > 0 && r.Chance(0.8):
		return mkStep("rel.hashes", hashesArgs{Count: minInt(16, int(b.Tip()-voted))}, sub)
	case len(unmined) > 0 && r.Chance(0.7):
		return mkStep("btc.mine", mineArgs{N: 1}, sub)
	}
	vals := []uint64{w.Cfg.MinDeposit, w.Cfg.MinDeposit + 1, 10000, 10001, 19999, 20000, 123456, 5_0000_0000, 21_000_000_0000_0000}
	val := pick(r, vals)
	if bad || (!w.Cfg.FaultFree && r.Chance(0.15)) {
		val = pick(r, []uint64{546, 999, 1000, 1001, w.Cfg.MinDeposit - 1, 0})
	}
	if cur := w.view(); cur != nil && !bad && r.Chance(0.5) {
		// under a heavy tax rate: values just above a multiple of the 10000-satoshi tax unit, where a
		// formula that rounds the number of units up would take more than the deposit is worth
		if p := cur.Bitcoin.Params; p.DepositTaxRate >= 2500 {
			base := p.MinDepositAmount
			if base < 10000 {
				base = 10000
			}
			base = (base + 9999) / 10000 * 10000
			val = base + uint64(r.Intn(4))*10000 + uint64(1+r.Intn(2))
			w.probe("deposit-just-above-a-tax-unit-under-heavy-rate")
		}
	}
	ver := -1
	if !w.Cfg.FaultFree && r.Chance(0.1) {
		ver = r.Intn(2)
	}
	mut := ""
	if !w.Cfg.FaultFree && (bad || r.Chance(0.1)) {
		mut = pick(r, []string{"witver", "witver", "flip-program", "push-len"})
	}
	rep := 0
	if w.Cfg.Bursts && mut == "" && r.Chance(0.12) {
		rep = 8 + r.Intn(16) // more than the 8 deposits handed over per block
	}
	keyIdx, keySch := -1, false
	if !w.Cfg.FaultFree && mut == "" && rep == 0 && r.Chance(0.10) {
		keyIdx, keySch = len(w.BtcKeys)-r.Intn(2), r.Chance(0.4) // the newest generated key or the next one
		if keyIdx < 0 {
			keyIdx = 0
		}
	}
	return mkStep("btc.deposit", newDepositArgs{User: r.Intn(len(w.Users)), Value: val, Version: ver, Coinbase: r.Chance(0.12) && keyIdx < 0, Node: r.Intn(w.Cfg.Nodes), KeyIdx: keyIdx, KeySchnorr: keySch, Extra: r.Intn(3), ScriptMut: mut, Repeat: rep}, sub)
}

func (w *World) genParamOps(r *Rand) []*ELOp {
	b := []uint64{0, 1, 545, 546, 547, 999, 1000, 1001, 9999, 10000, 10001, 1 << 63, ^uint64(0), 100, 20000}
	var ops []*ELOp
	switch r.Intn(3) {
	case 0:
		rate, cap := pick(r, b), pick(r, b)
		switch r.Intn(4) {
		case 0: // a legal but confiscatory rate with a cap that does not bind
			rate, cap = pick(r, []uint64{5000, 7500, 9000, 9998, 9999}), pick(r, []uint64{0, 0, 1 << 63, ^uint64(0), 100000000})
		case 1: // a small rate with a cap near the top of the 64-bit range (cap/rate arithmetic)
			rate = pick(r, []uint64{1, 2, 3, 4, 8, 16, 9999})
			cap = pick(r, []uint64{^uint64(0), ^uint64(0) - 1, 1 << 63, 1<<63 - 1, 3689348814741910, ^uint64(0) / 3, 18444899399302180045, ^uint64(0)/10000 + 1})
		}
		ops = append(ops, &ELOp{Kind: "tax", U1: rate, U2: cap})
	case 1:
		ops = append(ops, &ELOp{Kind: "confirm", U1: pick(r, b)})
	case 2:
		ops = append(ops, &ELOp{Kind: "mindeposit", U1: pick(r, b)})
	}
	return ops
}

var _ = big.NewInt

package main

import (
	"bytes"
	"crypto/ecdsa"
	"fmt"
	"reflect"

	"github.com/btcsuite/btcd/btcec/v2/schnorr"
	"github.com/btcsuite/btcd/btcutil"
	"github.com/btcsuite/btcd/txscript"
	"github.com/btcsuite/btcd/wire"
	sdk "github.com/cosmos/cosmos-sdk/types"
	"github.com/cosmos/gogoproto/proto"
	ethcrypto "github.com/ethereum/go-ethereum/crypto"
	bitcointypes "github.com/goatnetwork/goat/x/bitcoin/types"
)

func btcHash160(b []byte) []byte { return btcutil.Hash160(b) }

func taprootKeyOnlyScript(xonly []byte) []byte {
	pk, err := schnorr.ParsePubKey(xonly)
	if err != nil {
		return nil
	}
	return append([]byte{txscript.OP_1, 32}, schnorr.SerializePubKey(txscript.ComputeTaprootKeyNoScript(pk))...)
}

func mustECDSA(k *SecpKey) *ecdsa.PrivateKey {
	p, err := ethcrypto.ToECDSA(k.Priv.Key)
	if err != nil {
		panic(harnessError{err.Error()})
	}
	return p
}

func protoCloneMsg(m sdk.Msg) sdk.Msg {
	// round trip through the wire format (proto.Clone cannot merge math.Int fields)
	bz, err := proto.Marshal(m)
	if err != nil {
		panic(harnessError{err.Error()})
	}
	c := reflect.New(reflect.TypeOf(m).Elem()).Interface().(sdk.Msg)
	if err := proto.Unmarshal(bz, c); err != nil {
		panic(harnessError{err.Error()})
	}
	return c
}

type withdrawArgs struct {
	Action   string   `json:"action"` // process | replace | mine | finalize | approve
	IDs      []uint64 `json:"ids,omitempty"`
	Payout   int      `json:"payout"`
	PricePct int      `json:"price_pct,omitempty"`
	Change   bool     `json:"change,omitempty"`
	Variant  string   `json:"variant,omitempty"`
	Vote     VoteOpt  `json:"vote"`
	Arg      int      `json:"arg,omitempty"`
	Cand     int      `json:"cand,omitempty"` // which candidate tx to mine / finalise (-1 = latest)
}

func (w *World) findPid(p *PayoutFact) (uint64, bool) {
	cur := w.view()
	for _, pr := range cur.Bitcoin.Processing {
		for _, t := range pr.Processing.Txid {
			if bytes.Equal(t, p.Txs[0].Txid) {
				return pr.Id, true
			}
		}
	}
	return 0, false
}

// payoutTx builds the bitcoin transaction paying the withdrawals ids in order.
func (w *World) payoutTx(ids []uint64, shrink uint64, change bool, variant string, r *Rand) (*BtcTx, uint64, bool) {
	cur := w.view()
	var outs []*wire.TxOut
	minPrice := ^uint64(0)
	for i, id := range ids {
		wd := cur.Wd[id]
		if wd == nil {
			return nil, 0, false
		}
		script, ok := w.Btc.payScript(wd.Address)
		if !ok {
			script = []byte{txscript.OP_TRUE}
		}
		val := wd.RequestAmount
		if val > shrink {
			val -= shrink
		}
		switch {
		case variant == "other-script" && i == 0:
			script = append([]byte{0, 20}, r.Bytes(20)...)
		case variant == "other-address-type" && i == 0:
			s2, _ := w.Btc.payScript(w.Btc.userAddress(r, pick(r, payableKinds)))
			script = s2
		case variant == "over-amount" && i == 0:
			val = wd.RequestAmount + 1 + uint64(r.Intn(1000))
		}
		if wd.MaxTxPrice < minPrice {
			minPrice = wd.MaxTxPrice
		}
		outs = append(outs, &wire.TxOut{Value: int64(val), PkScript: script})
	}
	pk, _ := w.currentBtcKey()
	if change || variant == "two-extra-outputs" || variant == "change-to-retired-key" || variant == "change-to-stranger" {
		cs := w.systemScript(pk)
		switch variant {
		case "change-to-retired-key":
			if len(w.BtcKeys) > 1 {
				cs = w.systemScript(relayerPubKey(w.BtcKeys[0], w.Cfg.KeySchnorr))
			}
		case "change-to-stranger":
			cs = append([]byte{0, 20}, r.Bytes(20)...)
		}
		outs = append(outs, &wire.TxOut{Value: int64(10000 + r.Intn(100000)), PkScript: cs})
		if variant == "two-extra-outputs" {
			outs = append(outs, &wire.TxOut{Value: 7000, PkScript: cs})
		}
	}
	tx := w.Btc.spend(outs, "payout")
	return tx, minPrice, true
}

func (w *World) stepWithdraw(a withdrawArgs, r *Rand) string {
	cv := w.chainView()
	cur := w.view()
	if cv == nil || cv.Proposer == nil {
		return "skip:no-proposer-identity"
	}
	honest := a.Variant == "" && a.Vote.Variant == ""
	switch a.Action {
	case "approve":
		msg := &bitcointypes.MsgApproveCancellation{Proposer: cv.Proposer.Addr(), Id: a.IDs}
		return w.sendMsgs([]sdk.Msg{msg}, nil, "approve/"+a.Variant, honest, nil, TxOpts{})
	case "process":
		if len(a.IDs) == 0 {
			return "skip:no-ids"
		}
		tx, minPrice, ok := w.payoutTx(a.IDs, uint64(300+r.Intn(2000)), a.Change, a.Variant, r)
		if !ok {
			return "skip:unknown-id"
		}
		pct := a.PricePct
		if pct == 0 {
			pct = 100
		}
		fee := feeFor(minPrice, uint64(len(tx.Raw)), pct)
		switch a.Variant {
		case "over-fee":
			fee = minPrice*uint64(len(tx.Raw)) + 1 + uint64(r.Intn(50))
		case "fee-boundary":
			fee = minPrice * uint64(len(tx.Raw)) // exactly the maximum
		case "zero-fee":
			fee = 0
		}
		if fee == 0 && a.Variant != "zero-fee" {
			fee = 1
		}
		msg := &bitcointypes.MsgProcessWithdrawal{Proposer: cv.Proposer.Addr(), Id: a.IDs, NoWitnessTx: tx.Raw, TxFee: fee}
		altTx, _, _ := w.payoutTx(a.IDs, 77, a.Change, "", r)
		alt := &bitcointypes.MsgProcessWithdrawal{Proposer: msg.Proposer, Id: a.IDs, NoWitnessTx: altTx.Raw, TxFee: fee}
		vote, truth := w.makeVote(msg, alt, a.Vote, r)
		truth.Honest = honest
		msg.Vote = vote
		p := &PayoutFact{IDs: a.IDs, Txs: []*BtcTx{tx}, Fees: []uint64{fee}, Mined: -1}
		w.Btc.Payouts = append(w.Btc.Payouts, p)
		return w.sendMsgs([]sdk.Msg{msg}, truth, "process/"+a.Variant+a.Vote.Variant, honest, nil, TxOpts{})
	case "replace":
		if a.Payout < 0 || a.Payout >= len(w.Btc.Payouts) {
			return "skip:no-payout"
		}
		p := w.Btc.Payouts[a.Payout]
		pid, ok := w.findPid(p)
		if !ok {
			if a.Variant != "unknown-pid" {
				return "skip:not-processing"
			}
			pid = uint64(1000 + a.Arg)
		}
		tx, minPrice, ok := w.payoutTx(p.IDs, uint64(2500+r.Intn(5000)), a.Change, a.Variant, r)
		if !ok {
			return "skip:unknown-id"
		}
		last := p.Fees[len(p.Fees)-1]
		fee := last + 1 + uint64(r.Intn(200))
		switch a.Variant {
		case "replace-lower-fee":
			fee = last
			if last > 1 && r.Chance(0.5) {
				fee = last - 1
			}
		case "over-fee":
			fee = minPrice*uint64(len(tx.Raw)) + 1 + uint64(r.Intn(50))
		case "same-tx":
			tx = p.Txs[len(p.Txs)-1]
		}
		msg := &bitcointypes.MsgReplaceWithdrawal{Proposer: cv.Proposer.Addr(), Pid: pid, NewNoWitnessTx: tx.Raw, NewTxFee: fee}
		altTx, _, _ := w.payoutTx(p.IDs, 99, a.Change, "", r)
		alt := &bitcointypes.MsgReplaceWithdrawal{Proposer: msg.Proposer, Pid: pid, NewNoWitnessTx: altTx.Raw, NewTxFee: fee}
		vote, truth := w.makeVote(msg, alt, a.Vote, r)
		truth.Honest = honest
		msg.Vote = vote
		p.Txs = append(p.Txs, tx)
		p.Fees = append(p.Fees, fee)
		return w.sendMsgs([]sdk.Msg{msg}, truth, "replace/"+a.Variant+a.Vote.Variant, honest, nil, TxOpts{})
	case "mine":
		if a.Payout < 0 || a.Payout >= len(w.Btc.Payouts) {
			return "skip:no-payout"
		}
		p := w.Btc.Payouts[a.Payout]
		if p.Mined >= 0 {
			return "skip:already-mined"
		}
		c := len(p.Txs) - 1
		if a.Cand >= 0 && a.Cand < len(p.Txs) {
			c = a.Cand
		}
		if c < len(p.Txs)-1 {
			w.probe("rbf-older-candidate-confirmed")
		}
		// some unrelated traffic so that the payout is not at a trivial position
		for i := 0; i < 1+r.Intn(4); i++ {
			w.Btc.Pending = append(w.Btc.Pending, w.Btc.spend([]*wire.TxOut{{Value: 1234, PkScript: append([]byte{0, 20}, r.Bytes(20)...)}}, "noise"))
		}
		w.Btc.Pending = append(w.Btc.Pending, p.Txs[c])
		w.Btc.noteMined(w.Btc.mine(w.Btc.pendingCoinbase()))
		return "mined"
	case "finalize":
		if a.Payout < 0 || a.Payout >= len(w.Btc.Payouts) {
			return "skip:no-payout"
		}
		p := w.Btc.Payouts[a.Payout]
		pid, ok := w.findPid(p)
		if !ok && a.Variant == "" {
			return "skip:not-processing"
		}
		if a.Variant == "finalize-unvoted-header" {
			// the relayer claims a payout is confirmed under a header it made up for a voted height:
			// a two-leaf tree whose second leaf is the (possibly never mined) candidate
			vt := w.votedTip()
			rb := w.Btc.Blocks[vt]
			if rb == nil || len(p.Txs) == 0 {
				return "skip:no-voted-block"
			}
			txid := p.Txs[len(p.Txs)-1].Txid
			sib := sha([]byte(fmt.Sprintf("fake-sibling-%d", a.Arg)))
			hdr := append([]byte{}, rb.Header...)
			copy(hdr[36:68], dsha(append(append([]byte{}, sib...), txid...)))
			msg := &bitcointypes.MsgFinalizeWithdrawal{Proposer: cv.Proposer.Addr(), Pid: pid, Txid: txid, BlockNumber: vt, TxIndex: 1, IntermediateProof: sib, BlockHeader: hdr}
			return w.sendMsgs([]sdk.Msg{msg}, nil, "finalize/"+a.Variant, false, nil, TxOpts{})
		}
		if p.Mined < 0 {
			return "skip:not-mined"
		}
		blk := w.Btc.Blocks[p.Height]
		msg := &bitcointypes.MsgFinalizeWithdrawal{Proposer: cv.Proposer.Addr(), Pid: pid, Txid: p.Txs[p.Mined].Txid, BlockNumber: p.Height,
			TxIndex: uint32(p.Index), IntermediateProof: blk.proof(p.Index), BlockHeader: blk.Header}
		switch a.Variant {
		case "finalize-unknown-txid":
			msg.Txid = sha(msg.Txid)
		case "finalize-index0":
			msg.TxIndex = 0
		case "finalize-alias-position":
			msg.TxIndex += 1 << uint(blk.depth())
		case "finalize-coinbase-alias":
			// claim the block's coinbase (position 0) under an aliased position
			msg.Txid = blk.Txs[0].Txid
			msg.IntermediateProof = blk.proof(0)
			msg.TxIndex = 1 << uint(blk.depth())
		case "finalize-wrong-proof":
			msg.IntermediateProof = r.Bytes(len(msg.IntermediateProof))
		case "finalize-other-candidate":
			if len(p.Txs) > 1 {
				msg.Txid = p.Txs[(p.Mined+1)%len(p.Txs)].Txid
			}
		case "finalize-other-pid":
			msg.Pid = pid + 1 + uint64(a.Arg%3)
		case "finalize-short-header":
			msg.BlockHeader = msg.BlockHeader[:79]
		case "finalize-empty-proof":
			msg.IntermediateProof = nil
		}
		if honest {
			p.Done = true
		}
		return w.sendMsgs([]sdk.Msg{msg}, nil, "finalize/"+a.Variant, honest, nil, TxOpts{})
	}
	_ = cur
	return "skip:unknown-action"
}

func feeFor(price, size uint64, pct int) uint64 {
	if price == ^uint64(0) || price > 1<<40 {
		price = 1 << 20
	}
	return price * size * uint64(pct) / 100
}

// genWithdrawStep advances the honest withdrawal pipeline by one action (forged != nil: the
// voted action is produced with an adversarial vote).
func (w *World) genWithdrawStep(r *Rand, sub uint64, forged *VoteOpt) (Step, bool) {
	cur := w.view()
	if cur == nil {
		return Step{}, false
	}
	var pending, canceling []uint64
	for _, id := range sortedU64Keys(cur.Wd) {
		switch cur.Wd[id].Status {
		case bitcointypes.WITHDRAWAL_STATUS_PENDING:
			if w.Btc.addressPayable(cur.Wd[id].Address) {
				pending = append(pending, id)
			}
		case bitcointypes.WITHDRAWAL_STATUS_CANCELING:
			canceling = append(canceling, id)
		}
	}
	inFlight := map[uint64]bool{}
	var unmined, minedUnvoted, finalisable, replaceable []int
	voted := w.votedTip()
	for i, p := range w.Btc.Payouts {
		if p.Done {
			continue
		}
		if _, ok := w.findPid(p); !ok {
			if i >= len(w.Btc.Payouts)-3 {
				for _, id := range p.IDs {
					inFlight[id] = true // submitted, maybe not executed yet
				}
			}
			continue
		}
		for _, id := range p.IDs {
			inFlight[id] = true
		}
		switch {
		case p.Mined < 0:
			unmined = append(unmined, i)
			replaceable = append(replaceable, i)
		case p.Height > voted:
			minedUnvoted = append(minedUnvoted, i)
		default:
			finalisable = append(finalisable, i)
		}
	}
	fresh := func(ids []uint64) []uint64 {
		var out []uint64
		for _, id := range ids {
			if !inFlight[id] {
				out = append(out, id)
			}
		}
		return out
	}
	pending, canceling = fresh(pending), fresh(canceling)
	vote := VoteOpt{}
	if forged != nil {
		vote = *forged
	}
	switch {
	case forged == nil && len(finalisable) > 0 && r.Chance(0.8):
		return mkStep("rel.withdraw", withdrawArgs{Action: "finalize", Payout: pick(r, finalisable), Cand: -1}, sub), true
	case forged == nil && len(minedUnvoted) > 0 && r.Chance(0.8):
		return mkStep("rel.hashes", hashesArgs{Count: minInt(16, int(w.Btc.Tip()-voted))}, sub), true
	case forged == nil && len(canceling) > 0 && r.Chance(0.5):
		n := 1 + r.Intn(minInt(len(canceling), 4))
		return mkStep("rel.withdraw", withdrawArgs{Action: "approve", IDs: canceling[:n]}, sub), true
	case len(replaceable) > 0 && r.Chance(0.35):
		return mkStep("rel.withdraw", withdrawArgs{Action: "replace", Payout: pick(r, replaceable), Change: r.Chance(0.5), Vote: vote}, sub), true
	case forged == nil && len(unmined) > 0 && r.Chance(0.6):
		cand := -1
		if r.Chance(0.3) {
			cand = 0
		}
		pi := pick(r, unmined)
		// prefer payouts with several fee-bumped candidates, and let a middle one confirm
		for _, j := range unmined {
			if len(w.Btc.Payouts[j].Txs) >= 3 && r.Chance(0.7) {
				pi = j
				break
			}
		}
		if n := len(w.Btc.Payouts[pi].Txs); n >= 3 && r.Chance(0.6) {
			cand = 1 + r.Intn(n-2)
			w.probe("rbf-middle-candidate-chosen")
		}
		return mkStep("rel.withdraw", withdrawArgs{Action: "mine", Payout: pi, Cand: cand}, sub), true
	case len(pending)+len(canceling) > 0:
		pool := append(append([]uint64{}, pending...), canceling...)
		n := 1 + r.Intn(minInt(len(pool), 6))
		var ids []uint64
		for _, i := range r.Perm(len(pool))[:n] {
			ids = append(ids, pool[i])
		}
		return mkStep("rel.withdraw", withdrawArgs{Action: "process", IDs: ids, PricePct: 30 + r.Intn(71), Change: r.Chance(0.5), Vote: vote}, sub), true
	}
	if forged != nil {
		return Step{}, false
	}
	return mkStep("el.ops", w.genBridgeOps(r), sub), true
}

var badWithdrawVariants = []string{"other-script", "other-address-type", "over-amount", "over-fee", "fee-boundary", "zero-fee", "two-extra-outputs", "change-to-retired-key", "change-to-stranger",
	"dup-ids", "process-terminal", "process-processing", "process-unknown", "approve-processing", "approve-pending", "approve-terminal", "approve-unknown", "approve-dup-ids",
	"replace-lower-fee", "same-tx", "unknown-pid",
	"finalize-unknown-txid", "finalize-index0", "finalize-alias-position", "finalize-coinbase-alias", "finalize-unvoted-header", "finalize-wrong-proof", "finalize-other-candidate", "finalize-other-pid", "finalize-short-header", "finalize-empty-proof", "finalize-twice"}

func (w *World) genBadWithdrawStep(r *Rand, sub uint64) (Step, bool) {
	cur := w.view()
	if cur == nil {
		return Step{}, false
	}
	byStatus := map[bitcointypes.WithdrawalStatus][]uint64{}
	for _, id := range sortedU64Keys(cur.Wd) {
		st := cur.Wd[id].Status
		byStatus[st] = append(byStatus[st], id)
	}
	open := append(append([]uint64{}, byStatus[bitcointypes.WITHDRAWAL_STATUS_PENDING]...), byStatus[bitcointypes.WITHDRAWAL_STATUS_CANCELING]...)
	var payable []uint64
	for _, id := range open {
		if w.Btc.addressPayable(cur.Wd[id].Address) {
			payable = append(payable, id)
		}
	}
	terminal := append(append([]uint64{}, byStatus[bitcointypes.WITHDRAWAL_STATUS_PAID]...), byStatus[bitcointypes.WITHDRAWAL_STATUS_CANCELED]...)
	var live, mined, done []int
	for i, p := range w.Btc.Payouts {
		if p.Done {
			done = append(done, i)
			continue
		}
		if _, ok := w.findPid(p); ok {
			live = append(live, i)
			if p.Mined >= 0 {
				mined = append(mined, i)
			}
		}
	}
	v := pick(r, badWithdrawVariants)
	some := func(ids []uint64) []uint64 {
		n := 1 + r.Intn(minInt(len(ids), 3))
		return append([]uint64{}, ids[:n]...)
	}
	switch v {
	case "other-script", "other-address-type", "over-amount", "over-fee", "fee-boundary", "zero-fee", "two-extra-outputs", "change-to-retired-key", "change-to-stranger":
		if len(payable) == 0 {
			return Step{}, false
		}
		if (v == "over-fee" || v == "fee-boundary") && len(live) > 0 && r.Chance(0.4) {
			return mkStep("rel.badwithdraw", withdrawArgs{Action: "replace", Payout: pick(r, live), Variant: v}, sub), true
		}
		return mkStep("rel.badwithdraw", withdrawArgs{Action: "process", IDs: some(payable), Variant: v, PricePct: 60, Change: r.Chance(0.3)}, sub), true
	case "dup-ids":
		if len(payable) == 0 {
			return Step{}, false
		}
		return mkStep("rel.badwithdraw", withdrawArgs{Action: "process", IDs: []uint64{payable[0], payable[0]}, Variant: v, PricePct: 50}, sub), true
	case "process-terminal":
		if len(terminal) == 0 {
			return Step{}, false
		}
		return mkStep("rel.badwithdraw", withdrawArgs{Action: "process", IDs: some(terminal), Variant: v, PricePct: 50}, sub), true
	case "process-processing":
		ids := byStatus[bitcointypes.WITHDRAWAL_STATUS_PROCESSING]
		if len(ids) == 0 {
			return Step{}, false
		}
		return mkStep("rel.badwithdraw", withdrawArgs{Action: "process", IDs: some(ids), Variant: v, PricePct: 50}, sub), true
	case "process-unknown":
		return mkStep("rel.badwithdraw", withdrawArgs{Action: "process", IDs: []uint64{uint64(100000 + r.Intn(100))}, Variant: v, PricePct: 50}, sub), true
	case "approve-processing":
		ids := byStatus[bitcointypes.WITHDRAWAL_STATUS_PROCESSING]
		if len(ids) == 0 {
			return Step{}, false
		}
		return mkStep("rel.badwithdraw", withdrawArgs{Action: "approve", IDs: some(ids), Variant: v}, sub), true
	case "approve-pending":
		ids := byStatus[bitcointypes.WITHDRAWAL_STATUS_PENDING]
		if len(ids) == 0 {
			return Step{}, false
		}
		return mkStep("rel.badwithdraw", withdrawArgs{Action: "approve", IDs: some(ids), Variant: v}, sub), true
	case "approve-terminal":
		if len(terminal) == 0 {
			return Step{}, false
		}
		return mkStep("rel.badwithdraw", withdrawArgs{Action: "approve", IDs: some(terminal), Variant: v}, sub), true
	case "approve-unknown":
		return mkStep("rel.badwithdraw", withdrawArgs{Action: "approve", IDs: []uint64{uint64(100000 + r.Intn(100))}, Variant: v}, sub), true
	case "approve-dup-ids":
		// a cancel-requested id listed twice in one approval (adjacent, or with another id between): one refund at most
		ids := byStatus[bitcointypes.WITHDRAWAL_STATUS_CANCELING]
		if len(ids) == 0 {
			return Step{}, false
		}
		list := []uint64{ids[0], ids[0]}
		if len(ids) > 1 && r.Chance(0.5) {
			list = []uint64{ids[0], ids[1], ids[0]}
		}
		return mkStep("rel.badwithdraw", withdrawArgs{Action: "approve", IDs: list, Variant: v}, sub), true
	case "replace-lower-fee", "same-tx":
		if len(live) == 0 {
			return Step{}, false
		}
		return mkStep("rel.badwithdraw", withdrawArgs{Action: "replace", Payout: pick(r, live), Variant: v}, sub), true
	case "unknown-pid":
		if len(w.Btc.Payouts) == 0 {
			return Step{}, false
		}
		return mkStep("rel.badwithdraw", withdrawArgs{Action: "replace", Payout: r.Intn(len(w.Btc.Payouts)), Variant: v, Arg: r.Intn(5)}, sub), true
	case "finalize-unvoted-header":
		if len(live) == 0 {
			return Step{}, false
		}
		return mkStep("rel.badwithdraw", withdrawArgs{Action: "finalize", Payout: pick(r, live), Variant: v, Cand: -1, Arg: r.Intn(5)}, sub), true
	case "finalize-twice":
		if len(done) == 0 {
			return Step{}, false
		}
		return mkStep("rel.badwithdraw", withdrawArgs{Action: "finalize", Payout: pick(r, done), Variant: v, Cand: -1}, sub), true
	default:
		if len(mined) == 0 {
			return Step{}, false
		}
		return mkStep("rel.badwithdraw", withdrawArgs{Action: "finalize", Payout: pick(r, mined), Variant: v, Cand: -1, Arg: r.Intn(5)}, sub), true
	}
}

// genBridgeOps: execution-layer users of the bridge contract (withdraw, fee update, cancel).
func (w *World) genBridgeOps(r *Rand) []*ELOp {
	st := w.elHeadState()
	var pendingIDs []uint64
	for _, id := range sortedU64Keys(st.Wd) {
		if st.Wd[id].Status == "pending" {
			pendingIDs = append(pendingIDs, id)
		}
	}
	var ops []*ELOp
	n := 1 + r.Intn(3)
	if w.Cfg.Bursts && r.Chance(0.08) {
		n = 9 + r.Intn(20) // more than the 8 paid/refunded withdrawals handed over per block
	}
	burstUnpayable := n > 3 && r.Chance(0.5)
	for i := 0; i < n; i++ {
		if burstUnpayable && !w.Cfg.FaultFree {
			ops = append(ops, &ELOp{Kind: "withdraw", Addr: w.Btc.userAddress(r, pick(r, []string{"p2pk", "foreign"})), U1: uint64(20000 + r.Intn(1000000)), U2: uint64(1 + r.Intn(60)), Guards: true})
			continue
		}
		switch k := r.Intn(100); {
		case k < 60 || len(pendingIDs) == 0:
			kind := pick(r, payableKinds)
			if !w.Cfg.FaultFree && r.Chance(0.15) {
				kind = pick(r, unpayableKinds)
			}
			amount := uint64(20000 + r.Intn(5_0000_0000))
			if r.Chance(0.12) {
				// whales: amounts whose value in wei (x 1e10) does not fit 64 bits
				amount = pick(r, []uint64{18_4467_4407, 18_4467_4408, 20_0000_0000, 184_4674_4074, 1000_0000_0000, 21_000_000_0000_0000})
			}
			price := uint64(1 + r.Intn(60))
			if r.Chance(0.05) {
				price = 0
			}
			ops = append(ops, &ELOp{Kind: "withdraw", Addr: w.Btc.userAddress(r, kind), U1: amount, U2: price, Guards: kind != "empty" && kind != "long", Fee: fmt.Sprint(r.Intn(100000))})
		case k < 80:
			ops = append(ops, &ELOp{Kind: "rbf", U1: pick(r, pendingIDs), U2: uint64(r.Intn(120)), Guards: true})
		default:
			ops = append(ops, &ELOp{Kind: "cancel1", U1: pick(r, pendingIDs), Guards: true})
		}
	}
	return ops
}
